//! C08 — serialized output is complete however the sink chunks writes (DESIGN §5.1).
//! Layer A: enumerated and seeded fault plans on the simulated fd under every sink stack.
//! Layer B (process level) lives in c08_proc.rs and is driven from here.

use serde_json::{json, Value};
use std::collections::BTreeMap;

use crate::bytecode::program::Program;

use super::foreign::{self, Field};
use super::gen::{GenCfg, StrRegime};
use super::report::{Evidence, Violation};
use super::simio::{random_write_plan, FiredCounts, WAct, WritePlan};
use super::stream::{write_under_plan, Stack, Teardown, WriteOutcome};
use super::util::{digest_bytes, digest_of, first_difference, par_map, Rng};
use super::vm;
use super::work::{self, ProgSpec};

pub const ENGINE_A: &str = "stream-sim";

#[derive(Clone, Debug)]
pub struct StreamCase {
    pub spec: ProgSpec,
    pub stack: Stack,
    pub teardown: Teardown,
    pub plan: WritePlan,
}

impl StreamCase {
    pub fn to_json(&self) -> Value {
        json!({
            "engine": ENGINE_A,
            "program": self.spec.to_json(),
            "stack": self.stack.name(),
            "teardown": self.teardown.name(),
            "plan": self.plan.to_json(),
        })
    }
    pub fn from_json(v: &Value) -> Option<StreamCase> {
        Some(StreamCase {
            spec: ProgSpec::from_json(v.get("program")?)?,
            stack: Stack::from_name(v.get("stack")?.as_str()?)?,
            teardown: Teardown::from_name(v.get("teardown")?.as_str()?)?,
            plan: WritePlan::from_json(v.get("plan")?)?,
        })
    }
}

pub fn budget_for(reference_len: usize, clean_calls: usize, plan: &WritePlan) -> usize {
    // calls of the fault-free run + room for one call per byte (per-call limit 1 is legal)
    // + 2 per transient fault + slack (DESIGN §3.5 bounded liveness)
    clean_calls + 2 * reference_len + 2 * plan.transient_count() + 64
}

/// The oracle. Returns Some((oracle, detail)) on violation.
pub fn judge(reference: &[u8], plan: &WritePlan, teardown: Teardown, out: &WriteOutcome) -> Option<(String, String)> {
    if out.budget_exceeded {
        return Some((
            "O4:no_progress_within_call_budget".into(),
            format!("sink saw {} write calls for a {}-byte image without finishing", out.write_calls, reference.len()),
        ));
    }
    let hard_fired = out.fired.any_hard();
    let reported_ok = out.serialize.is_ok() && out.teardown.is_ok();
    if !reported_ok {
        if plan.is_clean() {
            // a benign sink must be served; anything else would make C03's cycles meaningless
            return Some((
                "O0:error_on_benign_sink".into(),
                format!("serialize={:?} teardown={:?} on a sink that accepts everything", out.serialize, out.teardown),
            ));
        }
        return None; // an error was reported: nothing is claimed about the partial output
    }
    if teardown == Teardown::DropOnly && hard_fired {
        return None; // the error can only have surfaced inside Drop; layer B decides that case
    }
    if hard_fired {
        // serialize and an explicit flush both said Ok although the fd failed hard or refused bytes
        if out.received != reference {
            return Some((
                "O1:success_reported_after_hard_error".into(),
                format!("fd failed (hard/zero/flush) yet Ok was reported; fd holds {} of {} bytes", out.received.len(), reference.len()),
            ));
        }
        return None;
    }
    if out.received != reference {
        let at = first_difference(&out.received, reference).unwrap_or(0);
        return Some((
            "O1:success_reported_but_bytes_differ".into(),
            format!("Ok reported; fd holds {} bytes, memory sink {} bytes; first difference at offset {}", out.received.len(), reference.len(), at),
        ));
    }
    None
}

fn run_case(program: &Program, reference: &[u8], clean_calls: usize, case: &StreamCase) -> (WriteOutcome, Option<(String, String)>) {
    let budget = budget_for(reference.len(), clean_calls, &case.plan);
    let out = write_under_plan(program, case.stack, case.teardown, &case.plan, budget, false);
    let verdict = judge(reference, &case.plan, case.teardown, &out);
    (out, verdict)
}

/// Re-run a case from scratch (used by replay and by the minimiser).
pub fn replay_case(case: &StreamCase) -> Result<Option<(String, String)>, String> {
    let program = case.spec.build()?;
    let reference = vm::serialize_to_vec(&program)?;
    let clean = write_under_plan(&program, case.stack, case.teardown, &WritePlan::clean(), 4 * reference.len() + 1024, false);
    Ok(run_case(&program, &reference, clean.write_calls, case).1)
}

fn oracle_class(o: &str) -> &str {
    o.split(':').next().unwrap_or(o)
}

/// Minimise: delete plan entries, simplify survivors, shrink the program, simplify the stack.
pub fn minimise(case: &StreamCase, oracle: &str) -> StreamCase {
    let want = oracle_class(oracle).to_string();
    let still_fails = |c: &StreamCase| -> bool {
        match replay_case(c) {
            Ok(Some((o, _))) => oracle_class(&o) == want,
            _ => false,
        }
    };
    let mut best = case.clone();
    // (1) delete plan entries
    let mut i = 0;
    while i < best.plan.at.len() {
        let mut c = best.clone();
        c.plan.at.remove(i);
        if still_fails(&c) { best = c; } else { i += 1; }
    }
    if best.plan.limit.is_some() {
        let mut c = best.clone();
        c.plan.limit = None;
        if still_fails(&c) { best = c; }
    }
    if best.plan.flush_fail.is_some() {
        let mut c = best.clone();
        c.plan.flush_fail = None;
        if still_fails(&c) { best = c; }
    }
    // (2) simplify survivors
    if let Some(k) = best.plan.limit {
        if k != 1 {
            let mut c = best.clone();
            c.plan.limit = Some(1);
            if still_fails(&c) { best = c; }
        }
    }
    for j in 0..best.plan.at.len() {
        if matches!(best.plan.at[j].1, WAct::Short(n) if n != 1) || best.plan.at[j].1 == WAct::AllButOne {
            let mut c = best.clone();
            c.plan.at[j].1 = WAct::Short(1);
            if still_fails(&c) { best = c; }
        }
    }
    // (3) shrink the program (generated sources only): drop statements one by one, last first
    if let ProgSpec::Stmts(stmts) = &best.spec {
        let mut stmts = stmts.clone();
        let mut j = stmts.len();
        while j > 0 {
            j -= 1;
            if stmts.len() <= 1 { break; }
            let mut cand = stmts.clone();
            cand.remove(j);
            let mut c = best.clone();
            c.spec = ProgSpec::Stmts(cand.clone());
            // plan call indices refer to the old program; keep the candidate only if it still fails as is
            if still_fails(&c) {
                stmts = cand;
                best = c;
            }
        }
    }
    // (4) simplest configuration
    for st in [Stack::Raw, Stack::Buf, Stack::Line] {
        if st != best.stack {
            let mut c = best.clone();
            c.stack = st;
            if still_fails(&c) { best = c; break; }
        }
    }
    if best.teardown != Teardown::FlushChecked {
        let mut c = best.clone();
        c.teardown = Teardown::FlushChecked;
        if still_fails(&c) { best = c; }
    }
    best
}

// ------------------------------------------------------------------------------------------------

#[derive(Default)]
struct ProgOut {
    evaluations: u64,
    distinct: Vec<u64>,
    fired: FiredCounts,
    matrix: BTreeMap<(Field, &'static str), u64>,
    probes: BTreeMap<&'static str, u64>,
    violations: Vec<(StreamCase, String, String)>,
    sample: Option<Value>,
    enumerated_complete: bool,
    skipped: Option<String>,
    write_calls_raw: usize,
}

const LIMITS: [usize; 14] = [1, 2, 3, 4, 5, 7, 8, 16, 64, 1023, 1024, 1025, 8191, 8192];

fn exercise_program(name: &str, spec: &ProgSpec, rng: &mut Rng, enumerate_cap: usize, random_plans: usize) -> ProgOut {
    let mut out = ProgOut::default();
    let program = match spec.build() {
        Ok(p) => p,
        Err(e) => {
            out.skipped = Some(format!("{}: not buildable: {}", name, super::util::first_line(&e, 120)));
            return out;
        }
    };
    let reference = match vm::serialize_to_vec(&program) {
        Ok(b) => b,
        Err(e) => {
            out.skipped = Some(format!("{}: not serializable to memory: {}", name, super::util::first_line(&e, 120)));
            return out;
        }
    };
    // field annotation of the reference image by the independent decoder (coverage accounting only)
    let ann: Option<Vec<Field>> = foreign::decode(&reference).ok().map(|(_, a)| a);
    let spec_digest = digest_bytes(&reference);
    let max_req = {
        let clean = write_under_plan(&program, Stack::Raw, Teardown::FlushChecked, &WritePlan::clean(), 4 * reference.len() + 1024, true);
        out.write_calls_raw = clean.write_calls;
        clean.log.iter().map(|(_, req, _)| *req).max().unwrap_or(1)
    };
    if reference.len() > 1024 { *out.probes.entry("image_over_1KiB").or_insert(0) += 1; }
    if reference.len() > 8192 { *out.probes.entry("image_over_8KiB").or_insert(0) += 1; }
    if max_req > 65535 { *out.probes.entry("string_over_64KiB").or_insert(0) += 1; }
    if reference.len() >= 2 && u16::from_le_bytes([reference[0], reference[1]]) > 255 {
        *out.probes.entry("pool_over_255_constants").or_insert(0) += 1;
    }

    let mut all_enumerated = true;
    for stack in Stack::ALL.iter().copied() {
        // fault-free baseline on this stack: the number of calls the fd sees, and O0
        let clean_case = StreamCase { spec: spec.clone(), stack, teardown: Teardown::FlushChecked, plan: WritePlan::clean() };
        let clean = write_under_plan(&program, stack, Teardown::FlushChecked, &WritePlan::clean(), 4 * reference.len() + 1024, false);
        out.evaluations += 1;
        if let Some((o, d)) = judge(&reference, &WritePlan::clean(), Teardown::FlushChecked, &clean) {
            if o.starts_with("O1") && matches!(stack, Stack::Line | Stack::BoxedLine) {
                *out.probes.entry("linewriter_internal_short_write").or_insert(0) += 1;
            }
            out.violations.push((clean_case.clone(), o, d));
        }
        let calls = clean.write_calls.max(1);

        let mut plans: Vec<(WritePlan, Teardown)> = Vec::new();
        // (a) every per-call acceptance limit of the set, incl. len_max-1
        let mut limits: Vec<usize> = LIMITS.to_vec();
        if max_req >= 2 { limits.push(max_req - 1); }
        // small images: literally every k from 1 up to the largest single request (the property's own quantifier)
        if reference.len() <= 600 && max_req <= 200 {
            limits = (1..=max_req.max(1)).collect();
            limits.extend_from_slice(&[1023, 1024, 8192]);
            if stack == Stack::Raw { *out.probes.entry("programs_with_every_limit_k_enumerated").or_insert(0) += 1; }
        }
        for k in limits {
            plans.push((WritePlan::limit(k), Teardown::FlushChecked));
            plans.push((WritePlan::limit(k), Teardown::DropOnly));
        }
        // (b)(c)(d) one fault at each individual write call in turn
        let positions: Vec<usize> = if calls <= enumerate_cap {
            (0..calls).collect()
        } else {
            all_enumerated = false;
            // too many calls to enumerate in this tier: first/last 32 and a seeded sample
            let mut v: Vec<usize> = (0..32.min(calls)).chain(calls.saturating_sub(32)..calls).collect();
            for _ in 0..(enumerate_cap.saturating_sub(64)) { v.push(rng.usize_below(calls)); }
            v.sort();
            v.dedup();
            v
        };
        for &i in &positions {
            plans.push((WritePlan::one(i, WAct::Short(1)), Teardown::FlushChecked));
            plans.push((WritePlan::one(i, WAct::AllButOne), Teardown::FlushChecked));
            plans.push((WritePlan::one(i, WAct::Eintr), Teardown::FlushChecked));
            plans.push((WritePlan::one(i, WAct::Hard), Teardown::FlushChecked));
            plans.push((WritePlan::one(i, WAct::Zero), Teardown::FlushChecked));
            plans.push((WritePlan::one(i, WAct::Short(1)), Teardown::DropOnly));
            // a one-off error (EAGAIN on a non-blocking pipe, a timeout, a passing EIO): report it, or resume — never resend
            plans.push((WritePlan::one(i, WAct::Once((i % 3) as u8)), Teardown::FlushChecked));
        }
        // ... and in the middle of a request that is being accepted piecewise: part of it is already on the other side
        for &i in positions.iter().step_by(3) {
            plans.push((WritePlan { at: vec![(i, WAct::Short(1)), (i + 1, WAct::Once(0))], ..Default::default() }, Teardown::FlushChecked));
            plans.push((WritePlan { limit: Some(*rng.pick(&[1usize, 3, 64, 1024])), at: vec![(i * 2 + 1, WAct::Once((i % 3) as u8))], ..Default::default() }, Teardown::FlushChecked));
        }
        plans.push((WritePlan { flush_fail: Some(0), ..Default::default() }, Teardown::FlushChecked));
        // seeded part
        for _ in 0..random_plans {
            let td = if rng.below(3) == 0 { Teardown::DropOnly } else { Teardown::FlushChecked };
            plans.push((random_write_plan(rng, calls, true), td));
        }

        for (plan, teardown) in plans {
            let case = StreamCase { spec: spec.clone(), stack, teardown, plan };
            let (o, verdict) = run_case(&program, &reference, calls, &case);
            out.evaluations += 1;
            if o.fired.any() {
                out.distinct.push(digest_of(&(spec_digest, case.stack, case.teardown, &case.plan)));
                out.fired.add(&o.fired);
                if let Some(ann) = &ann {
                    for (off, kind) in &o.fault_offsets {
                        // the fd-level offset equals the image offset whenever the stream is intact so far
                        if let Some(f) = ann.get(*off) {
                            *out.matrix.entry((*f, *kind)).or_insert(0) += 1;
                        } else if *off == ann.len() {
                            *out.matrix.entry((Field::Entry, *kind)).or_insert(0) += 0;
                        }
                    }
                }
                if o.fired.eintr > 0 && case.plan.at.first().map(|(i, a)| *i == 0 && *a == WAct::Eintr).unwrap_or(false) {
                    *out.probes.entry("eintr_on_first_call").or_insert(0) += 1;
                }
                if case.plan.at.iter().any(|(i, _)| *i + 1 == calls) {
                    *out.probes.entry("fault_in_last_call").or_insert(0) += 1;
                }
                if matches!(stack, Stack::Buf | Stack::BufSmall(_) | Stack::BoxedBuf) && o.fired.short + o.fired.limit > 0 && max_req >= 8192 {
                    *out.probes.entry("bufwriter_bypass_with_short_write").or_insert(0) += 1;
                }
                if teardown == Teardown::DropOnly && o.fired.any_hard() && o.serialize.is_ok() {
                    *out.probes.entry("error_surfaced_only_in_drop").or_insert(0) += 1;
                }
            }
            if let Some((oracle, detail)) = verdict {
                if out.violations.len() < 64 {
                    out.violations.push((case.clone(), oracle, detail));
                }
            }
            if out.sample.is_none() && o.fired.any() && rng.below(50) == 0 {
                out.sample = Some(json!({
                    "program": name, "program_brief": spec.brief(), "image_bytes": reference.len(),
                    "stack": case.stack.name(), "teardown": case.teardown.name(), "plan": case.plan.to_json(),
                    "serialize": format!("{:?}", o.serialize.as_ref().map_err(|e| super::util::first_line(e, 80))),
                    "teardown_result": format!("{:?}", o.teardown), "fd_received_bytes": o.received.len(),
                    "fd_write_calls": o.write_calls, "faults_fired": o.fired.to_json(),
                }));
            }
        }
    }
    out.enumerated_complete = all_enumerated;
    out
}

pub struct Tier {
    pub generated: usize,
    pub models: usize,
    pub enumerate_cap: usize,
    pub random_plans: usize,
}

pub fn tier(name: &str) -> Tier {
    match name {
        "thorough" => Tier { generated: 5000, models: 2000, enumerate_cap: 3000, random_plans: 40 },
        _ => Tier { generated: 220, models: 80, enumerate_cap: 600, random_plans: 8 },
    }
}

pub fn specs_for(seed: u64, t: &Tier) -> Vec<(String, ProgSpec, u64)> {
    let mut specs: Vec<(String, ProgSpec, u64)> = Vec::new();
    for (i, (name, spec)) in work::corpus_specs().into_iter().enumerate() {
        specs.push((format!("corpus:{}", name), spec, i as u64));
    }
    let base = specs.len() as u64;
    for j in 0..t.generated {
        let case = base + j as u64;
        let mut rng = Rng::for_case(seed, "C08", "workload", case);
        let mut cfg = GenCfg::swarm(&mut rng);
        // the stream checks want long strings more often than the other checks do
        if rng.below(4) == 0 { cfg.strings = StrRegime::Long; }
        if cfg.strings == StrRegime::Long { cfg.stmts = cfg.stmts.min(8); }
        let (spec, _) = work::gen_source_spec(&mut rng, &cfg);
        specs.push((format!("gen:{}", case), spec, case));
    }
    let base = specs.len() as u64;
    for (k, (name, src)) in super::c11::limit_templates().into_iter().enumerate() {
        specs.push((format!("limit:{}", name), ProgSpec::Source(src), base + k as u64));
    }
    let base = specs.len() as u64;
    for (k, (name, src)) in work::scale_templates().into_iter().enumerate() {
        specs.push((format!("scale:{}", name), ProgSpec::Source(src), base + k as u64));
    }
    let base = specs.len() as u64;
    for j in 0..t.models {
        let case = base + j as u64;
        let mut rng = Rng::for_case(seed, "C08", "workload", case);
        let big = rng.below(6) == 0;
        specs.push((format!("model:{}", case), work::gen_model_spec(&mut rng, big), case));
    }
    specs
}

pub fn run_layer_a(seed: u64, tier_name: &str, ev: &mut Evidence) -> Vec<Violation> {
    let t = tier(tier_name);
    let specs = specs_for(seed, &t);
    let outs: Vec<ProgOut> = par_map(specs.len(), |i| {
        let (name, spec, case) = &specs[i];
        let mut rng = Rng::for_case(seed, "C08", ENGINE_A, *case);
        super::util::breadcrumb("C08", json!({"kind": "c08", "program": spec.to_json(), "seed": seed, "case": case, "tier": tier_name}));
        exercise_program(name, spec, &mut rng, t.enumerate_cap, t.random_plans)
    });

    let mut violations = Vec::new();
    let mut fired = FiredCounts::default();
    let mut matrix: BTreeMap<String, u64> = BTreeMap::new();
    let mut programs_used = 0u64;
    let mut fully_enumerated = 0u64;
    let mut skipped = Vec::new();
    let mut raw: Vec<(StreamCase, String, String)> = Vec::new();
    for o in outs {
        ev.evaluations += o.evaluations;
        for d in o.distinct { ev.distinct.insert(d); }
        fired.add(&o.fired);
        for ((f, k), n) in o.matrix { *matrix.entry(format!("{}×{}", f.name(), k)).or_insert(0) += n; }
        for (p, n) in o.probes { ev.count(&format!("probe.{}", p), n); }
        if let Some(s) = o.sample { ev.sample(s); }
        if let Some(s) = o.skipped { skipped.push(s); } else {
            programs_used += 1;
            if o.enumerated_complete { fully_enumerated += 1; }
        }
        raw.extend(o.violations);
    }
    ev.extra.insert("layer_a_programs".into(), json!(programs_used));
    ev.extra.insert("layer_a_programs_with_every_write_call_enumerated".into(), json!(fully_enumerated));
    ev.extra.insert("layer_a_programs_skipped".into(), json!(skipped.len()));
    ev.extra.insert("layer_a_skipped_examples".into(), json!(skipped.iter().take(5).collect::<Vec<_>>()));
    ev.extra.insert("fault_kinds_fired".into(), fired.to_json());
    ev.extra.insert("coverage_matrix_field_x_fault".into(), json!(matrix));

    // minimise and confirm each distinct failure class once per (oracle, stack)
    let mut seen: Vec<String> = Vec::new();
    for (case, oracle, detail) in raw {
        let key = format!("{}|{}", oracle, case.stack.name());
        if seen.contains(&key) { continue; }
        seen.push(key);
        let small = minimise(&case, &oracle);
        match replay_case(&small) {
            Ok(Some((o2, d2))) => violations.push(Violation {
                property: "C08".into(),
                oracle: o2.clone(),
                detail: d2,
                signature: json!({"engine": ENGINE_A, "oracle": o2, "stack": small.stack.name()}),
                replay: small.to_json(),
            }),
            _ => {
                // minimisation lost it: report the original (it was observed), never drop a finding
                violations.push(Violation {
                    property: "C08".into(),
                    oracle: oracle.clone(),
                    detail,
                    signature: json!({"engine": ENGINE_A, "oracle": oracle, "stack": case.stack.name()}),
                    replay: case.to_json(),
                });
            }
        }
    }
    violations
}

pub fn replay(v: &Value) -> Result<Option<(String, String)>, String> {
    let case = StreamCase::from_json(v).ok_or("malformed stream-sim replay")?;
    replay_case(&case)
}

pub fn replay_unit(u: &Value) -> Result<(), String> {
    let spec = ProgSpec::from_json(u.get("program").ok_or("no program")?).ok_or("bad program")?;
    let t = tier(u.get("tier").and_then(|x| x.as_str()).unwrap_or("quick"));
    let mut rng = Rng::for_case(u.get("seed").and_then(|x| x.as_u64()).unwrap_or(1), "C08", ENGINE_A, u.get("case").and_then(|x| x.as_u64()).unwrap_or(0));
    let _ = exercise_program("replayed-unit", &spec, &mut rng, t.enumerate_cap, t.random_plans);
    Ok(())
}
