//! C11 — compilation and execution are deterministic (DESIGN §5.5).
//! The simulator's own replay-determinism machinery turned on the system under test: every entropy
//! source the process can see is behind a seam (hash seed via getrandom, wall clock, address space,
//! environment block, cwd/argv0, input channel, build profile) and exactly those are varied.

use serde_json::{json, Value};

use super::gen::GenCfg;
use super::proc::{run_child, scratch_dir, Child, Exit, In, Out, Profile, ShimCfg};
use super::report::{Evidence, Violation};
use super::util::{digest_bytes, digest_of, par_map, Rng};
use super::vm;
use super::work::{self, ProgSpec};

pub const ENGINE: &str = "process-sim:entropy-tuples";

#[derive(Clone, Debug, PartialEq, Eq, Hash)]
pub struct Tuple {
    pub profile: Profile,
    pub hash_seed: u64,
    pub clock: Option<String>,
    pub junk: u32,
    pub env: Vec<(String, String)>,
    pub aslr: bool,
    pub via_stdin: bool,
    pub argv0: Option<String>,
    pub nested_cwd: bool,
    /// longer stale files already sit at every output path (state left behind by an earlier invocation)
    pub stale_outputs: bool,
    /// how the bytes are delivered: a transient-only shim plan (per-call limits and short transfers on every read and write of
    /// every stage — what a pipe, a tty or a slow disk does). No result may depend on it.
    pub io_plan: String,
    /// the input is named as a PATH that is not a regular file: `/dev/stdin` backed by a pipe the harness feeds (what
    /// `gen | fml run /dev/stdin`, a FIFO or bash's <(...) look like to the tool: st_size 0, not seekable)
    pub dev_stdin_pipe: bool,
    /// Some(schedule): `fml compile x.json -o x.bc` runs as two live invocations of the same command under the cooperative
    /// scheduler; the bytes in x.bc may not depend on who went when
    pub overlap_compile: Option<String>,
    /// a signal (SIGTERM, SIGINT, SIGHUP) delivered to `run` / `execute` just before one of its writes to stdout: the run may die
    /// of it or fail; a run that exits 0 printed everything
    pub run_signal: Option<String>,
    /// stdout of `run` / `execute` is a terminal (a pseudo-terminal under script(1)) instead of a pipe: the bytes a program prints
    /// may not depend on what kind of thing reads them
    pub stdout_tty: bool,
}

impl Tuple {
    pub fn baseline() -> Tuple {
        Tuple { profile: Profile::Debug, hash_seed: 1, clock: None, junk: 0, env: vec![], aslr: false, via_stdin: false, argv0: None, nested_cwd: false, stale_outputs: false, io_plan: String::new(), dev_stdin_pipe: false, overlap_compile: None, run_signal: None, stdout_tty: false }
    }
    pub fn to_json(&self) -> Value {
        json!({"profile": self.profile.name(), "hash_seed": self.hash_seed, "clock": self.clock, "junk": self.junk, "env": self.env,
               "aslr": self.aslr, "via_stdin": self.via_stdin, "argv0": self.argv0, "nested_cwd": self.nested_cwd, "stale_outputs": self.stale_outputs, "io_plan": self.io_plan, "dev_stdin_pipe": self.dev_stdin_pipe, "overlap_compile": self.overlap_compile, "run_signal": self.run_signal, "stdout_tty": self.stdout_tty})
    }
    pub fn from_json(v: &Value) -> Option<Tuple> {
        let mut env = Vec::new();
        for e in v.get("env")?.as_array()? {
            env.push((e.get(0)?.as_str()?.to_string(), e.get(1)?.as_str()?.to_string()));
        }
        Some(Tuple {
            profile: Profile::from_name(v.get("profile")?.as_str()?)?,
            hash_seed: v.get("hash_seed")?.as_u64()?,
            clock: v.get("clock").and_then(|c| c.as_str()).map(|s| s.to_string()),
            junk: v.get("junk")?.as_u64()? as u32,
            env,
            aslr: v.get("aslr")?.as_bool()?,
            via_stdin: v.get("via_stdin")?.as_bool()?,
            argv0: v.get("argv0").and_then(|c| c.as_str()).map(|s| s.to_string()),
            nested_cwd: v.get("nested_cwd")?.as_bool()?,
            stale_outputs: v.get("stale_outputs").and_then(|x| x.as_bool()).unwrap_or(false),
            io_plan: v.get("io_plan").and_then(|x| x.as_str()).unwrap_or("").to_string(),
            dev_stdin_pipe: v.get("dev_stdin_pipe").and_then(|x| x.as_bool()).unwrap_or(false),
            overlap_compile: v.get("overlap_compile").and_then(|x| x.as_str()).map(|s| s.to_string()),
            run_signal: v.get("run_signal").and_then(|x| x.as_str()).map(|s| s.to_string()),
            stdout_tty: v.get("stdout_tty").and_then(|x| x.as_bool()).unwrap_or(false),
        })
    }
    pub fn random(rng: &mut Rng) -> Tuple {
        let clock = match rng.below(8) {
            5 => Some("1700000000000000000:-1000000".to_string()), // a clock that runs backwards steadily
            6 | 7 => Some(format!("1700000000000000000:1000;{}:-{}", rng.below(16), 10u64.pow(3 + rng.below(10) as u32))), // set back once, anywhere
            0 => None,
            1 => Some("1700000000000000000:1000".to_string()),
            2 => Some(format!("{}:0", 1_000_000_000u64 + rng.below(1u64 << 40))), // stalled clock
            3 => Some(format!("1700000000000000000:1000000;{}:-5000000000;{}:99000000000000", rng.below(6), rng.below(12))), // backward + forward jump
            _ => Some("4102444800000000000:7".to_string()), // far future (2100)
        };
        let mut env: Vec<(String, String)> = super::proc::env_set(rng);
        if rng.below(3) == 0 {
            // junk variables of seeded size: shifts the initial stack and the environment block
            let n = 1 + rng.below(6);
            for i in 0..n {
                env.push((format!("FMLSIM_JUNKVAR_{}", i), "x".repeat(1 + rng.usize_below(3000))));
            }
        }
        Tuple {
            profile: if rng.coin() { Profile::Debug } else { Profile::Release },
            hash_seed: rng.next_u64(),
            clock,
            junk: if rng.coin() { rng.below(400) as u32 } else { 0 },
            env,
            aslr: rng.below(6) == 0,
            via_stdin: rng.below(3) == 0,
            argv0: match rng.below(4) { 0 => Some("fml".into()), 1 => Some("/odd path/ſml".into()), _ => None },
            nested_cwd: rng.below(4) == 0,
            stale_outputs: rng.below(4) == 0,
            io_plan: match rng.below(8) {
                0 => format!("i:*:l:{k};r:*:l:{k}", k = rng.pick(&[1u32, 7, 64, 1000, 4096])),
                1 => format!("o:*:l:{k};f:*:l:{k}", k = rng.pick(&[1u32, 7, 64, 1000])),
                2 => format!("i:{a}:s:{n};r:{a}:s:{n};o:{b}:s:1;f:{b}:b:0", a = rng.below(3), n = 1 + rng.below(50), b = rng.below(4)),
                // a passing I/O error (EAGAIN, EIO once) on one call of every class: a stage may fail then — compared narrowly
                3 => format!("o:{a}:y:11;f:{b}:y:5;r:{c}:y:5;i:{c}:y:5", a = rng.below(6), b = rng.below(6), c = rng.below(3)),
                _ => String::new(),
            },
            dev_stdin_pipe: rng.below(8) == 0,
            overlap_compile: if rng.below(8) == 0 { Some((0..10).map(|_| if rng.coin() { '1' } else { '0' }).collect()) } else { None },
            run_signal: if rng.below(10) == 0 { Some(format!("o:{}:S:{}", rng.below(4), rng.pick(&[15u32, 2, 1]))) } else { None },
            stdout_tty: rng.below(9) == 0,
        }
    }
}

#[derive(Clone, Debug, PartialEq, Eq)]
pub struct StageObs {
    pub exit: Exit,
    pub out: Vec<u8>,
    pub stderr_empty: bool,
}

#[derive(Clone, Debug, PartialEq, Eq)]
pub struct RunObs {
    pub exit: Exit,
    pub stdout: Vec<u8>,
    pub stderr_empty: bool,
    /// heap log with the timestamp column removed
    pub log: Option<String>,
}

#[derive(Clone, Debug, PartialEq, Eq)]
pub struct Obs {
    pub parse: StageObs,
    pub compile: Option<StageObs>,
    pub run: RunObs,
    pub exec: Option<RunObs>,
    pub children: u64,
    pub clock_reads: u64,
    pub clock_went_backwards: bool,
    /// sum over children of (max - min) scripted clock value seen, in ns
    pub clock_span_ns: u128,
}

fn strip_timestamps(log: &[u8]) -> String {
    let text = String::from_utf8_lossy(log);
    let mut out = String::new();
    for line in text.lines() {
        match line.find(',') {
            Some(i) => out.push_str(&line[i..]),
            None => out.push_str(line),
        }
        out.push('\n');
    }
    out
}

fn child_for(t: &Tuple, args: &[&str]) -> Child {
    let mut c = Child::new(t.profile, args);
    // run/execute also get the signal plan (a signal that arrives while the program prints)
    let guest = matches!(args.first(), Some(&"run") | Some(&"execute"));
    let plan: String = match (&t.run_signal, guest) { (Some(sp), true) if t.io_plan.is_empty() => sp.clone(), (Some(sp), true) => format!("{};{}", t.io_plan, sp), _ => t.io_plan.clone() };
    if guest && t.stdout_tty && !t.via_stdin && !t.dev_stdin_pipe && t.io_plan.is_empty() && t.run_signal.is_none() { c.stdout_tty = true; }
    c.shim = Some(ShimCfg { seed: t.hash_seed, plan, clock: t.clock.clone(), junk: t.junk, budget: None, ..Default::default() }); // no call budget: liveness is C06's and C08's claim, and the CPU watchdog bounds the child
    c
}

pub fn observe(source: &str, t: &Tuple) -> Obs {
    let root = scratch_dir();
    let dir = if t.nested_cwd { root.join("deeper").join("still deeper") } else { root.clone() };
    std::fs::create_dir_all(&dir).unwrap();
    std::fs::write(dir.join("x.fml"), source).unwrap();
    let junk = "stale output of an earlier, longer run\n".repeat(source.len() / 8 + 200);
    if t.stale_outputs {
        let _ = std::fs::create_dir_all(dir.join("logs"));
        for name in ["x.json", "x.bc", "run.csv", "logs/run.csv", "ex.csv"] {
            let _ = std::fs::write(dir.join(name), &junk);
        }
    }
    // a stale file that the tool never opened (because it failed earlier) is not an output of this invocation
    let read_output = |p: std::path::PathBuf| -> Option<Vec<u8>> {
        match std::fs::read(&p) {
            Ok(b) if t.stale_outputs && b == junk.as_bytes() => None,
            Ok(b) => Some(b),
            Err(_) => None,
        }
    };
    let mut children = 0u64;
    let mut clock_reads = 0u64;
    let mut backwards = false;
    let mut span: u128 = 0;
    let mut note_trace = |trace: &str| {
        let mut last: Option<i64> = None;
        let (mut lo, mut hi) = (i64::MAX, i64::MIN);
        for l in trace.lines() {
            if let Some(rest) = l.strip_prefix("C ") {
                clock_reads += 1;
                if let Some(v) = rest.split("-> ").nth(1).and_then(|x| x.trim().parse::<i64>().ok()) {
                    if let Some(p) = last { if v < p { backwards = true; } }
                    last = Some(v);
                    lo = lo.min(v);
                    hi = hi.max(v);
                }
            }
        }
        if hi >= lo { span += (hi as i128 - lo as i128) as u128; }
    };
    let dsp = t.dev_stdin_pipe && !t.via_stdin;
    // parse
    let parse = {
        let mut c = if t.via_stdin { child_for(t, &["parse", "--format", "json"]) } else if dsp { child_for(t, &["parse", "/dev/stdin", "--format", "json", "-o", "x.json"]) } else { child_for(t, &["parse", "x.fml", "--format", "json", "-o", "x.json"]) };
        if dsp { c.stdin = In::Pipe(source.as_bytes().to_vec()); }
        if t.via_stdin {
            c.stdin = In::File("x.fml".into());
            c.stdout = Out::File("x.json".into());
        }
        let r = run_child(&dir, &c);
        children += 1;
        note_trace(&r.trace);
        let out = read_output(dir.join("x.json")).unwrap_or_default();
        StageObs { exit: r.exit, out, stderr_empty: r.stderr.is_empty() }
    };
    // compile
    let compile = if parse.exit.is_success() {
        let mut c = if t.via_stdin { child_for(t, &["compile", "--input-format", "json"]) } else if dsp { child_for(t, &["compile", "/dev/stdin", "--input-format", "json", "-o", "x.bc"]) } else { child_for(t, &["compile", "x.json", "-o", "x.bc"]) };
        if dsp { c.stdin = In::Pipe(std::fs::read(dir.join("x.json")).unwrap_or_default()); }
        if t.via_stdin {
            c.stdin = In::File("x.json".into());
            c.stdout = Out::File("x.bc".into());
        }
        let r = match &t.overlap_compile {
            Some(sched) if !t.via_stdin && !dsp && t.io_plan.is_empty() => {
                let choices: Vec<u8> = sched.bytes().map(|b| b.wrapping_sub(b'0')).collect();
                let (ra, rb, _) = super::proc::run_scheduled_pair(&dir, &c, &c, "openw,writef,rename,flock,unlink", &choices);
                children += 1;
                match (ra.exit.is_success(), rb.exit.is_success()) { (true, false) if rb.exit.is_clean_failure() => ra, (false, true) if ra.exit.is_clean_failure() => rb, (true, true) => rb, _ => ra }
            }
            _ => run_child(&dir, &c),
        };
        children += 1;
        note_trace(&r.trace);
        let out = read_output(dir.join("x.bc")).unwrap_or_default();
        Some(StageObs { exit: r.exit, out, stderr_empty: r.stderr.is_empty() })
    } else {
        None
    };
    // run
    let run = {
        let mut c = if t.via_stdin { child_for(t, &["run", "--heap-log", "run.csv"]) } else if dsp { child_for(t, &["run", "/dev/stdin", "--heap-log", "logs/run.csv"]) } else { child_for(t, &["run", "x.fml", "--heap-log", "logs/run.csv"]) };
        if dsp { c.stdin = In::Pipe(source.as_bytes().to_vec()); }
        if t.via_stdin { c.stdin = In::File("x.fml".into()); }
        let r = run_child(&dir, &c);
        children += 1;
        note_trace(&r.trace);
        let log = read_output(dir.join(if t.via_stdin { "run.csv" } else { "logs/run.csv" })).map(|b| strip_timestamps(&b));
        RunObs { exit: r.exit, stdout: r.stdout, stderr_empty: r.stderr.is_empty(), log }
    };
    // execute
    let exec = if compile.as_ref().map(|c| c.exit.is_success()).unwrap_or(false) {
        let mut c = if t.via_stdin { child_for(t, &["execute", "--heap-log", "ex.csv"]) } else if dsp { child_for(t, &["execute", "/dev/stdin", "--heap-log", "ex.csv"]) } else { child_for(t, &["execute", "x.bc", "--heap-log", "ex.csv"]) };
        if dsp { c.stdin = In::Pipe(std::fs::read(dir.join("x.bc")).unwrap_or_default()); }
        if t.via_stdin { c.stdin = In::File("x.bc".into()); }
        let r = run_child(&dir, &c);
        children += 1;
        note_trace(&r.trace);
        let log = read_output(dir.join("ex.csv")).map(|b| strip_timestamps(&b));
        Some(RunObs { exit: r.exit, stdout: r.stdout, stderr_empty: r.stderr.is_empty(), log })
    } else {
        None
    };
    let _ = std::fs::remove_dir_all(&root);
    Obs { parse, compile, run, exec, children, clock_reads, clock_went_backwards: backwards, clock_span_ns: span }
}

/// When one of the two observations had a terminal on stdout: the terminal turned LF into CR LF and stderr went to /dev/null, so
/// carriage returns are removed on both sides and the presence of diagnostics is not compared.
pub fn difference_tty(a: &Obs, b: &Obs) -> Option<(String, String)> {
    let strip = |o: &Obs| { let mut o = o.clone(); o.run.stdout.retain(|c| *c != b'\r'); o.run.stderr_empty = true; if let Some(e) = o.exec.as_mut() { e.stdout.retain(|c| *c != b'\r'); e.stderr_empty = true; } o };
    difference(&strip(a), &strip(b))
}

/// First observable that differs between two observations of the same source.
pub fn difference(a: &Obs, b: &Obs) -> Option<(String, String)> {
    if a.parse.exit != b.parse.exit { return Some(("D1:parse_status_differs".into(), format!("{} vs {}", a.parse.exit.show(), b.parse.exit.show()))); }
    if a.parse.out != b.parse.out { return Some(("D1:parse_output_differs".into(), format!("{} vs {} bytes", a.parse.out.len(), b.parse.out.len()))); }
    match (&a.compile, &b.compile) {
        (Some(x), Some(y)) => {
            if x.exit != y.exit { return Some(("D2:compile_status_differs".into(), format!("{} vs {}", x.exit.show(), y.exit.show()))); }
            if x.out != y.out {
                let at = super::util::first_difference(&x.out, &y.out).unwrap_or(0);
                return Some(("D2:bytecode_differs".into(), format!("{} vs {} bytes, first difference at offset {}", x.out.len(), y.out.len(), at)));
            }
        }
        (None, None) => {}
        _ => return Some(("D2:compile_presence_differs".into(), String::new())),
    }
    if a.run.exit != b.run.exit { return Some(("D3:run_status_differs".into(), format!("{} vs {}", a.run.exit.show(), b.run.exit.show()))); }
    if a.run.stdout != b.run.stdout {
        let at = super::util::first_difference(&a.run.stdout, &b.run.stdout).unwrap_or(0);
        return Some(("D3:run_output_differs".into(), format!("{} vs {} bytes of stdout, first difference at offset {}", a.run.stdout.len(), b.run.stdout.len(), at)));
    }
    if a.run.stderr_empty != b.run.stderr_empty { return Some(("D3:run_stderr_presence_differs".into(), String::new())); }
    if a.run.log != b.run.log { return Some(("D5:run_heap_log_differs".into(), "heap logs differ after removing timestamps".into())); }
    match (&a.exec, &b.exec) {
        (Some(x), Some(y)) => {
            if x.exit != y.exit { return Some(("D4:execute_status_differs".into(), format!("{} vs {}", x.exit.show(), y.exit.show()))); }
            if x.stdout != y.stdout { return Some(("D4:execute_output_differs".into(), format!("{} vs {} bytes of stdout", x.stdout.len(), y.stdout.len()))); }
            if x.stderr_empty != y.stderr_empty { return Some(("D4:execute_stderr_presence_differs".into(), String::new())); }
            if x.log != y.log { return Some(("D5:execute_heap_log_differs".into(), "heap logs differ after removing timestamps".into())); }
        }
        (None, None) => {}
        _ => return Some(("D4:execute_presence_differs".into(), String::new())),
    }
    None
}

/// Under a tuple whose io_plan holds a passing I/O *error*, a stage may fail where the baseline succeeds; what may not happen is
/// a stage that reports success with other bytes, or a run that exits 0 having printed something else.
pub fn difference_narrow(a: &Obs, b: &Obs, guest_stdout_error: bool) -> Option<(String, String)> {
    if guest_stdout_error {
        // the guest's own stdout failed in passing: what the tool does about it is no property's subject, but what arrived is a
        // prefix of what the program prints — never repeated, reordered or invented bytes
        if !a.run.stdout.starts_with(&b.run.stdout) {
            let at = super::util::first_difference(&a.run.stdout, &b.run.stdout).unwrap_or(0);
            return Some(("D3:run_output_not_a_prefix_after_a_passing_stdout_error".into(), format!("{} bytes arrived, the program prints {}; first difference at offset {}", b.run.stdout.len(), a.run.stdout.len(), at)));
        }
        if let (Some(x), Some(y)) = (&a.exec, &b.exec) {
            if !x.stdout.starts_with(&y.stdout) {
                return Some(("D4:execute_output_not_a_prefix_after_a_passing_stdout_error".into(), format!("{} bytes arrived, the program prints {}", y.stdout.len(), x.stdout.len())));
            }
        }
    }
    if a.parse.exit.is_success() && b.parse.exit.is_success() && a.parse.out != b.parse.out {
        return Some(("D1:parse_output_differs".into(), format!("both exit 0 (one under a passing I/O error): {} vs {} bytes", a.parse.out.len(), b.parse.out.len())));
    }
    if let (Some(x), Some(y)) = (&a.compile, &b.compile) {
        if x.exit.is_success() && y.exit.is_success() && b.parse.exit.is_success() && x.out != y.out {
            let at = super::util::first_difference(&x.out, &y.out).unwrap_or(0);
            return Some(("D2:bytecode_differs".into(), format!("both exit 0 (one under a passing I/O error): {} vs {} bytes, first difference at offset {}", x.out.len(), y.out.len(), at)));
        }
    }
    if !guest_stdout_error && a.run.exit.is_success() && b.run.exit.is_success() && a.run.stdout != b.run.stdout {
        return Some(("D3:run_output_differs".into(), format!("both exit 0 (one under a passing I/O error): {} vs {} bytes of stdout", a.run.stdout.len(), b.run.stdout.len())));
    }
    None
}

fn timed_out(o: &Obs) -> bool {
    o.parse.exit == Exit::Timeout
        || o.compile.as_ref().map(|c| c.exit == Exit::Timeout).unwrap_or(false)
        || o.run.exit == Exit::Timeout
        || o.exec.as_ref().map(|c| c.exit == Exit::Timeout).unwrap_or(false)
}

#[derive(Clone, Debug)]
pub struct Case {
    pub spec: ProgSpec,
    pub a: Tuple,
    pub b: Tuple,
    /// in-process history case: sources compiled and run, in this order, in the same thread before the program
    pub history: Vec<String>,
}

impl Case {
    pub fn to_json(&self) -> Value {
        json!({"engine": ENGINE, "program": self.spec.to_json(), "tuple_a": self.a.to_json(), "tuple_b": self.b.to_json(), "history": self.history})
    }
    pub fn from_json(v: &Value) -> Option<Case> {
        Some(Case { spec: ProgSpec::from_json(v.get("program")?)?, a: Tuple::from_json(v.get("tuple_a")?)?, b: Tuple::from_json(v.get("tuple_b")?)?,
                    history: v.get("history").and_then(|h| h.as_array()).map(|a| a.iter().filter_map(|s| s.as_str().map(|s| s.to_string())).collect()).unwrap_or_default() })
    }
}

/// The program compiled, serialized and executed in-process in a fresh thread, after `history` programs were
/// compiled and executed in that same thread (a thread is the unit in which FML could carry state between runs).
pub fn in_process_after(history: &[String], source: &str) -> Option<(Option<Vec<u8>>, String, &'static str)> {
    // Parsing happens here, in the worker (one reusable parser per worker thread — the generated lexer does not give its match
    // caches back, and a fresh parser per fresh thread cost ~0.6 MB per program); what must run in a fresh thread is everything
    // that touches hash maps and VM state: compile, serialize, run.
    let history_asts: Vec<crate::parser::AST> = history.iter().filter_map(|h| vm::parse(h).ok()).collect();
    let ast = vm::parse(source).ok();
    std::thread::Builder::new().stack_size(64 << 20).spawn(move || {
        for h in &history_asts {
            if let Ok(p) = vm::compile(h) {
                let _ = vm::run(&p, &vm::RunCfg { step_budget: 60_000, ..Default::default() });
            }
        }
        match ast.as_ref().map(vm::compile) {
            Some(Ok(p)) => {
                let bytes = vm::serialize_to_vec(&p).ok();
                let r = vm::run(&p, &vm::RunCfg { step_budget: 400_000, ..Default::default() });
                (bytes, r.output, r.end.class())
            }
            _ => (None, String::new(), "does_not_compile"),
        }
    }).ok()?.join().ok()
}

fn history_difference(history: &[String], source: &str) -> Option<(String, String)> {
    let alone = in_process_after(&[], source)?;
    let after = in_process_after(history, source)?;
    if alone.2 == "budget" || after.2 == "budget" { return None; }
    if alone.0 != after.0 {
        return Some(("D6:in_process_compile_depends_on_earlier_runs".into(), format!("bytecode differs when {} other program(s) were compiled and run first in the same thread", history.len())));
    }
    if alone.1 != after.1 || alone.2 != after.2 {
        return Some(("D6:in_process_run_depends_on_earlier_runs".into(), format!("alone: {} with {} bytes of output; after {} other program(s) in the same thread: {} with {} bytes",
            alone.2, alone.1.len(), history.len(), after.2, after.1.len())));
    }
    None
}

pub fn replay_case(c: &Case) -> Result<Option<(String, String)>, String> {
    let source = c.spec.source().ok_or("no source")?;
    if !c.history.is_empty() {
        return Ok(history_difference(&c.history, &source));
    }
    let a = observe(&source, &c.a);
    let b = observe(&source, &c.b);
    if timed_out(&a) || timed_out(&b) {
        return Ok(None);
    }
    let tty = c.b.stdout_tty && !c.b.via_stdin && !c.b.dev_stdin_pipe && c.b.io_plan.is_empty() && c.b.run_signal.is_none();
    let diff = if tty { difference_tty(&a, &b) } else if c.b.io_plan.contains(":y:") || c.a.io_plan.contains(":y:") || c.b.run_signal.is_some() { difference_narrow(&a, &b, c.b.io_plan.contains("o:") && c.b.io_plan.contains(":y:")) } else { difference(&a, &b) };
    Ok(diff.map(|(o, d)| (o, format!("{} [tuples differ in: {}]", d, varying_fields(&c.a, &c.b)))))
}

fn varying_fields(a: &Tuple, b: &Tuple) -> String {
    let mut v = Vec::new();
    if a.profile != b.profile { v.push("profile"); }
    if a.hash_seed != b.hash_seed { v.push("hash_seed"); }
    if a.clock != b.clock { v.push("clock"); }
    if a.junk != b.junk { v.push("heap_layout"); }
    if a.env != b.env { v.push("env"); }
    if a.aslr != b.aslr { v.push("aslr"); }
    if a.via_stdin != b.via_stdin { v.push("input_channel"); }
    if a.argv0 != b.argv0 { v.push("argv0"); }
    if a.nested_cwd != b.nested_cwd { v.push("cwd"); }
    if a.stale_outputs != b.stale_outputs { v.push("stale_outputs"); }
    if a.io_plan != b.io_plan { v.push("io_plan"); }
    if a.dev_stdin_pipe != b.dev_stdin_pipe { v.push("dev_stdin_pipe"); }
    if a.overlap_compile != b.overlap_compile { v.push("overlap_compile"); }
    if a.run_signal != b.run_signal { v.push("run_signal"); }
    if a.stdout_tty != b.stdout_tty { v.push("stdout_is_a_terminal"); }
    v.join("+")
}

fn class_of(o: &str) -> String { o.split(':').next().unwrap_or(o).to_string() }

pub fn minimise(c: &Case, oracle: &str) -> Case {
    let want = class_of(oracle);
    let still = |x: &Case| matches!(replay_case(x), Ok(Some((o, _))) if class_of(&o) == want);
    let mut best = c.clone();
    let mut h = 0;
    while h < best.history.len() {
        let mut x = best.clone();
        x.history.remove(h);
        if !x.history.is_empty() && still(&x) { best = x; } else { h += 1; }
    }
    // isolate the entropy source: move B towards A field by field
    macro_rules! try_field {
        ($f:ident) => {
            if best.a.$f != best.b.$f {
                let mut x = best.clone();
                x.b.$f = best.a.$f.clone();
                if still(&x) { best = x; }
            }
        };
    }
    try_field!(env);
    try_field!(stale_outputs);
    try_field!(io_plan);
    try_field!(dev_stdin_pipe);
    try_field!(overlap_compile);
    try_field!(run_signal);
    try_field!(stdout_tty);
    try_field!(argv0);
    try_field!(nested_cwd);
    try_field!(via_stdin);
    try_field!(aslr);
    try_field!(junk);
    try_field!(clock);
    try_field!(profile);
    try_field!(hash_seed);
    if let ProgSpec::Stmts(stmts) = &best.spec {
        let mut stmts = stmts.clone();
        let mut j = stmts.len();
        while j > 0 {
            j -= 1;
            if stmts.len() <= 1 { break; }
            let mut cand = stmts.clone();
            cand.remove(j);
            let mut x = best.clone();
            x.spec = ProgSpec::Stmts(cand.clone());
            if still(&x) { stmts = cand; best = x; }
        }
    }
    best
}

struct Out1 {
    evaluations: u64,
    children: u64,
    distinct: Vec<u64>,
    counters: Vec<(&'static str, u64)>,
    violations: Vec<(Case, String, String)>,
    sample: Option<Value>,
}

fn exercise(name: &str, spec: &ProgSpec, rng: &mut Rng, n_tuples: usize, history: &[String]) -> Out1 {
    let mut out = Out1 { evaluations: 0, children: 0, distinct: vec![], counters: vec![], violations: vec![], sample: None };
    let source = match spec.source() { Some(s) => s, None => return out };
    if !name.starts_with("big:") && work::builds(spec) && work::qualify_scaled(name, spec, 150_000).is_none() {
        out.counters.push(("programs_skipped_step_budget", 1));
        return out;
    }
    let src_digest = digest_bytes(source.as_bytes());
    // the in-process view (orchestrator build, uncontrolled RandomState keys per thread: a second witness)
    let parsed = vm::parse(&source).ok();
    let inproc: Vec<Option<Vec<u8>>> = (0..3).map(|_| {
        let ast = parsed.clone();
        std::thread::Builder::new().stack_size(64 << 20).spawn(move || {
            ast.and_then(|a| vm::compile(&a).ok()).and_then(|p| vm::serialize_to_vec(&p).ok())
        }).unwrap().join().unwrap_or(None)
    }).collect();
    out.evaluations += 3;
    if inproc.iter().any(|x| *x != inproc[0]) {
        out.violations.push((Case { spec: spec.clone(), a: Tuple::baseline(), b: Tuple::baseline(), history: vec![] }, "D0:in_process_compile_not_repeatable".into(), "three compilations in fresh threads gave different bytes".into()));
    }
    // repeated in-process runs with a history: state carried from one run to the next inside a thread would show here
    if !history.is_empty() {
        out.evaluations += 1;
        if let Some((o, d)) = history_difference(history, &source) {
            out.violations.push((Case { spec: spec.clone(), a: Tuple::baseline(), b: Tuple::baseline(), history: history.to_vec() }, o, d));
        }
        out.counters.push(("in_process_history_runs", 1));
    }
    let release_only = name.starts_with("big:");
    let mut base_t = Tuple::baseline();
    if release_only { base_t.profile = Profile::Release; }
    let base = observe(&source, &base_t);
    out.children += base.children;
    out.evaluations += 1;
    if let (Some(c), Some(bytes)) = (&base.compile, &inproc[0]) {
        if c.exit.is_success() && &c.out != bytes {
            out.violations.push((Case { spec: spec.clone(), a: base_t.clone(), b: base_t.clone(), history: vec![] }, "D2:cli_bytecode_differs_from_in_process_compile".into(),
                format!("{} vs {} bytes", c.out.len(), bytes.len())));
        }
    }
    let mut tuples: Vec<Tuple> = Vec::new();
    // guaranteed coverage: the other profile with everything else equal; a different hash seed only
    let mut t = base_t.clone(); t.profile = Profile::Release; tuples.push(t);
    let mut t = base_t.clone(); t.hash_seed = rng.next_u64(); tuples.push(t);
    let mut t = base_t.clone(); t.clock = Some("1700000000000000000:1000;1:-9000000000".into()); t.via_stdin = true; tuples.push(t);
    if name.starts_with("scale:") {
        // images and outputs beyond every buffer: a passing error on the second write of each class lands in the middle of the data
        let mut t = base_t.clone(); t.io_plan = "f:1:y:5;o:1:y:11".into(); tuples.push(t);
    }
    if name.starts_with("stress:") {
        // the one environment variable the Rust runtime itself reads for thread stacks, small and large
        let mut t = base_t.clone(); t.env = vec![("RUST_MIN_STACK".into(), "262144".into())]; tuples.push(t);
        let mut t = base_t.clone(); t.env = vec![("RUST_MIN_STACK".into(), "67108864".into())]; t.profile = Profile::Release; tuples.push(t);
    }
    while tuples.len() < n_tuples { tuples.push(Tuple::random(rng)); }
    if release_only {
        // the debug build needs more CPU time for this program than the watchdog grants: eight hash seeds in the release build
        tuples = (0..8).map(|_| { let mut t = base_t.clone(); t.hash_seed = rng.next_u64(); t }).collect();
    }
    let mut seeds: Vec<u64> = vec![base_t.hash_seed];
    let (mut aslr_on, mut back, mut clock_reads, mut rel, mut stdin_n) = (0u64, 0u64, 0u64, 0u64, 0u64);
    let mut span_total: u128 = 0;
    for t in tuples {
        let o = observe(&source, &t);
        out.children += o.children;
        out.evaluations += 1;
        out.distinct.push(digest_of(&(src_digest, &t)));
        if !seeds.contains(&t.hash_seed) { seeds.push(t.hash_seed); }
        if t.aslr { aslr_on += 1; }
        if o.clock_went_backwards { back += 1; }
        clock_reads += o.clock_reads;
        span_total += o.clock_span_ns;
        if t.profile == Profile::Release { rel += 1; }
        if t.via_stdin { stdin_n += 1; }
        if timed_out(&base) || timed_out(&o) {
            out.counters.push(("observations_skipped_cpu_watchdog", 1));
            continue;
        }
        let tty = t.stdout_tty && !t.via_stdin && !t.dev_stdin_pipe && t.io_plan.is_empty() && t.run_signal.is_none();
        let diff = if tty { difference_tty(&base, &o) } else if t.io_plan.contains(":y:") || t.run_signal.is_some() { difference_narrow(&base, &o, t.io_plan.contains("o:") && t.io_plan.contains(":y:")) } else { difference(&base, &o) };
        if let Some((oracle, detail)) = diff {
            out.violations.push((Case { spec: spec.clone(), a: base_t.clone(), b: t.clone(), history: vec![] }, oracle, detail));
        }
        if out.sample.is_none() && rng.below(30) == 0 {
            out.sample = Some(json!({"program": name, "program_brief": spec.brief(), "tuple": t.to_json(), "run_exit": o.run.exit.show(),
                "run_stdout_bytes": o.run.stdout.len(), "bytecode_bytes": o.compile.as_ref().map(|c| c.out.len()), "clock_reads": o.clock_reads,
                "heap_log_lines": o.run.log.as_ref().map(|l| l.lines().count())}));
        }
    }
    out.counters.push(("tuples_with_aslr_on", aslr_on));
    out.counters.push(("tuples_where_clock_went_backwards", back));
    out.counters.push(("simulated_clock_reads", clock_reads));
    out.counters.push(("simulated_clock_span_seconds_summed_over_children", (span_total / 1_000_000_000) as u64));
    out.counters.push(("tuples_release_profile", rel));
    out.counters.push(("tuples_input_via_stdin", stdin_n));
    out.counters.push(("distinct_hash_seeds_summed_over_programs", seeds.len() as u64));
    if base.run.exit.is_clean_failure() { out.counters.push(("programs_failing_at_run_time", 1)); }
    if !base.parse.exit.is_success() { out.counters.push(("programs_rejected_by_parser", 1)); }
    if base.run.log.as_ref().map(|l| l.lines().count() > 2).unwrap_or(false) { out.counters.push(("programs_with_allocations_logged", 1)); }
    out
}

pub fn limit_templates() -> Vec<(String, String)> {
    let mut v: Vec<(String, String)> = Vec::new();
    let list = |n: usize, f: &dyn Fn(usize) -> String| (0..n).map(f).collect::<Vec<_>>().join(", ");
    v.push(("duplicate_parameter".into(), "function f(a, a) -> a;\nprint(\"~\\n\", f(1, 2))\n".into()));
    v.push(("duplicate_parameter_method".into(), "let o = object begin function m(a, b, a) -> a + b; end;\nprint(\"~\\n\", o.m(1, 2, 3))\n".into()));
    v.push(("parameter_named_like_local".into(), "function f(a) -> begin let a = 2; a end;\nprint(\"~\\n\", f(1))\n".into()));
    v.push(("duplicate_global".into(), "let x = 1;\nlet x = 2;\nprint(\"~\\n\", x)\n".into()));
    v.push(("duplicate_function".into(), "function f() -> 1;\nfunction f() -> 2;\nprint(\"~\\n\", f())\n".into()));
    v.push(("duplicate_field".into(), "let o = object begin let a = 1; let a = 2; end;\nprint(\"~\\n\", o)\n".into()));
    v.push(("duplicate_method".into(), "let o = object begin function m() -> 1; function m() -> 2; end;\nprint(\"~\\n\", o.m())\n".into()));
    v.push(("duplicate_local_in_block".into(), "begin let x = 1; let x = 2; print(\"~\\n\", x) end\n".into()));
    for n in [254usize, 255, 256, 257, 300] {
        v.push((format!("function_{}_parameters", n), format!("function f({}) -> p0;\nprint(\"~\\n\", f({}))\n", list(n, &|i| format!("p{}", i)), list(n, &|i| format!("{}", i)))));
        v.push((format!("call_{}_arguments_to_unary", n), format!("function f(a) -> a;\nprint(\"~\\n\", f({}))\n", list(n, &|i| format!("{}", i)))));
        v.push((format!("print_{}_arguments", n), format!("print(\"{}\\n\", {})\n", "~".repeat(n), list(n, &|i| format!("{}", i)))));
        v.push((format!("method_{}_arguments", n), format!("let o = object begin function m({}) -> q0; end;\nprint(\"~\\n\", o.m({}))\n", list(n, &|i| format!("q{}", i)), list(n, &|i| format!("{}", i)))));
        v.push((format!("function_{}_locals", n), format!("function f() -> begin {}; l0 end;\nprint(\"~\\n\", f())\n", (0..n).map(|i| format!("let l{} = {}", i, i)).collect::<Vec<_>>().join("; "))));
        v.push((format!("object_{}_fields", n), format!("let o = object begin {}; end;\nprint(\"~\\n\", o.a0)\n", (0..n).map(|i| format!("let a{} = {}", i, i)).collect::<Vec<_>>().join("; "))));
    }
    v.push(("integer_literal_out_of_range".into(), "print(\"~\\n\", 2147483648)\n".into()));
    v.push(("integer_literal_min".into(), "print(\"~\\n\", -2147483648)\n".into()));
    v.push(("integer_literal_below_min".into(), "print(\"~\\n\", -2147483649)\n".into()));
    v.push(("array_size_max".into(), "let a = array(2147483647 - 2147483647, 0);\nprint(\"~\\n\", a)\n".into()));
    v.push(("arithmetic_extremes".into(), "print(\"~ ~ ~ ~ ~\\n\", 2147483647 + 1, (-2147483648) - 1, 65536 * 65536, 46341 * 46341, (-2147483648) * (-1))\n".into()));
    v.push(("division_extremes".into(), "print(\"~ ~ ~ ~\\n\", (-7) / 2, (-7) % 2, 7 / (-2), 7 % (-2));\nprint(\"~\\n\", (-2147483648) / (-1))\n".into()));
    v.push(("remainder_min_by_minus_one".into(), "print(\"~\\n\", (-2147483648) % (-1))\n".into()));
    // the Feeny spellings of the built-in methods must behave like the operators, in every profile
    v.push(("feeny_spelling_arithmetic_extremes".into(), "print(\"~ ~ ~ ~ ~\\n\", 2147483647.add(1), (-2147483648).sub(1), 65536.mul(65536), 46341.mul(46341), (-2147483648).mul(-1))\n".into()));
    v.push(("feeny_spelling_division".into(), "print(\"~ ~ ~ ~\\n\", (-7).div(2), (-7).mod(2), 7.div(-2), 7.mod(-2));\nprint(\"~\\n\", (-2147483648).div(-1))\n".into()));
    v.push(("feeny_spelling_comparisons".into(), "print(\"~ ~ ~ ~ ~ ~ ~ ~\\n\", 1.le(2), 2.ge(2), 1.lt(1), 2.gt(1), 1.eq(1), 1.neq(1), 1.eq(null), 1.neq(true));\nprint(\"~ ~ ~ ~ ~ ~\\n\", true.and(false), true.or(false), true.eq(true), false.neq(1), null.eq(null), null.neq(0))\n".into()));
    v.push(("operators_vs_spellings_side_by_side".into(), "let a = 2147483000;\nlet b = 9999;\nprint(\"~ ~\\n\", a + b, a.add(b));\nprint(\"~ ~\\n\", a * b, a.mul(b));\nprint(\"~ ~\\n\", (0 - a) - b, (0 - a).sub(b));\nprint(\"~ ~\\n\", a % b, a.mod(b))\n".into()));
    // a global variable named like a global function (separate namespaces: `run` accepts it, so must every loader)
    v.push(("global_variable_named_like_function".into(), "function size() -> 3;\nlet size = size();\nprint(\"~ ~\\n\", size, size())\n".into()));
    v.push(("local_and_field_and_method_named_alike".into(), "let o = object begin let v = 1; function v() -> 2; end;\nlet v = o.v;\nprint(\"~ ~\\n\", v, o.v())\n".into()));
    // a tower of 100 objects that define an operator, addressed through the word spelling of that operator (and the reverse): an
    // unknown method on every level — whatever table an implementation looks names up in, hits may not depend on the hash seed
    {
        let mut t = String::from("let o = 0;\nlet i = 0;\nwhile i < 100 do begin o <- object extends o begin function +(x) -> 1000 + x; function le(x) -> true; end; i <- i + 1 end;\n");
        v.push(("tower_of_objects_operator_called_by_word_spelling".into(), format!("{}print(\"~\\n\", o.add(1))\n", t)));
        t.push_str("print(\"~\\n\", o <= 1)\n");
        v.push(("tower_of_objects_word_spelling_called_by_operator".into(), t));
    }
    v.push(("empty_program".into(), "\n".into()));
    v.push(("only_function".into(), "function f() -> 1\n".into()));
    v.push(("function_last_in_top".into(), "print(\"a\\n\");\nfunction f() -> 1\n".into()));
    v
}

pub fn run(seed: u64, tier: &str, ev: &mut Evidence) -> Vec<Violation> {
    let (n_gen, n_tuples) = if tier == "thorough" { (8000usize, 20usize) } else { (450, 10) };
    let mut specs: Vec<(String, ProgSpec)> = work::corpus_specs().into_iter().filter(|(_, s)| s.source().is_some()).map(|(n, s)| (format!("corpus:{}", n), s)).collect();
    for j in 0..n_gen {
        let mut rng = Rng::for_case(seed, "C11", "workload", j as u64);
        let mut cfg = GenCfg::swarm(&mut rng);
        // boundary arithmetic forced on for half of the programs: wrap-around must not depend on the profile
        if j % 2 == 0 { cfg.boundary_ints = true; cfg.tame_arith = false; }
        if cfg.strings == super::gen::StrRegime::Long { cfg.strings = super::gen::StrRegime::Mixed; }
        let (mut spec, _) = work::gen_source_spec(&mut rng, &cfg);
        if j % 7 == 3 {
            // a program that fails at run time: the failure point must be deterministic too
            if let ProgSpec::Stmts(v) = &mut spec {
                let at = rng.usize_below(v.len() + 1);
                v.insert(at, (*rng.pick(&["print(\"~\\n\", undefined_variable_zz)", "(1 / 0)", "array(3, 0)[7]", "null.nope()", "print(\"~ ~\\n\", 1)"])).to_string());
            }
        }
        specs.push((format!("gen:{}", j), spec));
    }
    // seeded random heap graphs (shared sub-structure, diamonds, cycles): rendering and dispatch over them must not depend on
    // the profile, the hash seed or anything else either
    let n_graphs = if tier == "thorough" { 4000usize } else { 160 };
    for j in 0..n_graphs {
        let mut rng = Rng::for_case(seed, "C11", "random-graph", j as u64);
        specs.push((format!("graph:{}", j), ProgSpec::Source(super::c10::random_graph_program(&mut rng))));
    }
    for (name, src) in work::scale_templates() {
        specs.push((format!("scale:{}", name), ProgSpec::Source(src)));
    }
    // W1s: the stress templates inside the stated bounds (chains of 10^3 links, call depth 10^5, nesting 200, cycles): where the
    // native stack is used most, the build profile, the environment (RUST_MIN_STACK) and the address-space layout matter most
    for (name, src) in super::c10::stress_templates() {
        if name.starts_with("scale_") || name.contains("on_a_heap_of_300000") { continue; }
        specs.push((format!("stress:{}", name), ProgSpec::Source(src)));
    }
    // W1e: programs at the limits of the format's index widths and of the compiler's own checks —
    // where debug-only assertions, overflow checks and `as` casts could make the profiles disagree.
    for (name, src) in limit_templates() {
        specs.push((format!("limit:{}", name), ProgSpec::Source(src)));
    }
    if tier == "thorough" {
        // tens of thousands of distinct string constants: whatever index an implementation keeps over the pool (hashes, fingerprints,
        // tries) is exercised where collisions become likely; compiling it takes seconds even in the release build, so: thorough only
        let src: String = (0..60_000).map(|i| format!("print(\"s{}\\n\")", i)).collect::<Vec<_>>().join(";\n");
        specs.push(("big:60000_distinct_string_constants".into(), ProgSpec::Source(src)));
    }
    if let Ok(only) = std::env::var("VERIF_DEBUG_C11_ONLY") { specs.retain(|(n, _)| n.starts_with(&only)); }
    let outs: Vec<Out1> = par_map(specs.len(), |i| {
        let mut rng = Rng::for_case(seed, "C11", ENGINE, i as u64);
        // history: up to three other programs of the batch, chosen by the case seed
        let mut history: Vec<String> = Vec::new();
        for _ in 0..(1 + rng.usize_below(3)) {
            let j = rng.usize_below(specs.len());
            if j != i { if let Some(s) = specs[j].1.source() { if s.len() < 20_000 { history.push(s); } } }
        }
        super::util::breadcrumb("C11", json!({"kind": "program", "program": specs[i].1.to_json()}));
        // scale templates cost seconds per observation in the debug build: fewer tuples, same coverage of the two forced ones
        let nt = if specs[i].0.starts_with("scale:") { 5 } else if specs[i].0.starts_with("stress:") { 6 } else { n_tuples };
        exercise(&specs[i].0, &specs[i].1, &mut rng, nt, &history)
    });
    let mut raw = Vec::new();
    let mut children = 0u64;
    for o in outs {
        ev.evaluations += o.evaluations;
        children += o.children;
        for d in o.distinct { ev.distinct.insert(d); }
        for (k, n) in o.counters { ev.count(k, n); }
        if let Some(s) = o.sample { ev.sample(s); }
        raw.extend(o.violations);
    }
    ev.extra.insert("children_spawned".into(), json!(children));
    ev.extra.insert("programs".into(), json!(specs.len()));
    let mut seen: Vec<String> = Vec::new();
    let mut violations = Vec::new();
    for (case, oracle, detail) in raw {
        let key = format!("{}|{}", oracle, varying_fields(&case.a, &case.b));
        if seen.iter().filter(|k| k.split('|').next() == Some(oracle.as_str())).count() >= 2 || seen.contains(&key) { continue; }
        seen.push(key);
        let small = minimise(&case, &oracle);
        let (c, o, d) = match replay_case(&small) {
            Ok(Some((o2, d2))) => (small, o2, d2),
            _ => (case, oracle, detail),
        };
        violations.push(Violation {
            property: "C11".into(),
            oracle: o.clone(),
            detail: d,
            signature: json!({"engine": ENGINE, "oracle": o, "varying": varying_fields(&c.a, &c.b)}),
            replay: c.to_json(),
        });
    }
    violations
}

pub fn replay(v: &Value) -> Result<Option<(String, String)>, String> {
    let case = Case::from_json(v).ok_or("malformed entropy-tuples replay")?;
    replay_case(&case)
}
