//! C10 — failing programs stop cleanly at the fault; the toolchain never crashes natively
//! (DESIGN §5.4). The crash-consistency check of this codebase: the "crash" is the guest program's
//! undefined operation, the "durable state" is what reached stdout, stderr and the exit status, and
//! the injection point ranges over every statement position. Oracle by construction — no reference
//! interpreter: the fault-free run of the base program supplies the expected prefix.

use serde_json::{json, Value};

use super::gen::{GenCfg, StrRegime};
use super::proc::{run_child, scratch_dir, Child, ChildResult, Exit, In, Out, Profile, ShimCfg};
use super::report::{Evidence, Violation};
use super::util::{digest_bytes, digest_of, first_difference, first_line, par_map, Rng};
use super::work::{self, ProgSpec};

pub const ENGINE: &str = "process-sim:guest-fault-injection";

// ------------------------------------------------------------------------------------------------
// Fault classes: each is an expression that performs one undefined operation and prints nothing
// itself unless stated (`own`), plus top-level definitions it needs.

#[derive(Clone, Debug)]
pub struct Fault {
    pub class: &'static str,
    pub defs: Vec<String>,
    pub expr: String,
    /// what the faulting operation itself may legitimately have printed before failing
    pub own: String,
    /// true: exactly `own` must appear; false: any prefix of `own` (a failing print may or may not
    /// have emitted the part of its format that precedes the mismatch)
    pub own_exact: bool,
}

pub const FAULT_CLASSES: &[&str] = &[
    "unknown_variable", "unknown_variable_in_block", "unknown_variable_in_function", "unknown_function",
    "unknown_method_object", "unknown_method_int", "unknown_method_bool", "unknown_method_null", "unknown_method_array",
    "unknown_method_through_parent_chain", "unknown_field_read", "unknown_field_write", "field_on_int", "field_on_null", "field_on_array",
    "arity_function_few", "arity_function_many", "arity_method", "arity_builtin_int", "arity_array_get", "arity_array_set",
    "index_negative", "index_too_large", "index_non_integer", "index_set_too_large", "index_on_empty_array",
    "size_negative", "size_non_integer", "size_null", "size_negative_compound",
    "operand_int_plus_bool", "operand_bool_and_int", "operand_int_less_null", "operand_null_plus", "operand_bool_plus", "operand_int_and",
    "print_too_few_arguments", "print_too_many_arguments", "print_no_placeholder_with_argument",
    "feeny_div_by_zero", "feeny_mod_by_zero", "feeny_add_wrong_operand", "feeny_and_wrong_operand", "feeny_le_wrong_operand", "feeny_min_div_minus_one",
    "print_plain_format_with_argument", "print_empty_format_with_argument", "print_only_placeholder_no_argument", "print_escape_only_format_with_argument",
    "divide_by_zero", "remainder_by_zero", "min_divided_by_minus_one",
    "call_method_on_function_result_null", "assign_unknown_variable",
    // the same operation succeeded just before: a cache or memo keyed too coarsely would skip the check the second time
    "arity_function_few_after_correct_call", "arity_function_many_after_correct_call", "arity_method_after_correct_call",
    "index_too_large_after_valid_access", "unknown_method_after_known_method", "unknown_field_after_known_field",
    "divide_by_zero_after_valid_division", "operand_kind_after_valid_operation", "unknown_function_after_known_function",
    "builtin_arity_after_valid_call", "size_negative_after_valid_array",
    // an object that does not define a comparison and whose parent chain ends in null must not borrow null's built-ins
    "object_without_equality_compared", "object_without_inequality_compared", "object_without_eq_method_called", "inherited_chain_to_null_compared",
    // a name declared in a block is unknown once that block has closed, also from inside a later block of the same frame
    "block_local_read_after_block", "block_local_read_in_later_block", "block_local_assigned_in_later_block", "block_local_in_function_later_block",
    "loop_body_local_read_after_loop",
    // diagnostics about very long, non-ASCII text (three alignments of a 3-byte character against any byte offset a message is cut at)
    "print_long_non_ascii_format_surplus_argument_0", "print_long_non_ascii_format_surplus_argument_1", "print_long_non_ascii_format_surplus_argument_2",
    // characters an implementation might use as in-band marks inside a format string
    "print_object_replacement_character_with_argument", "print_private_use_character_with_argument", "print_nul_character_with_argument",
    // an operator applied to an object that defines only the Feeny spelling of it (and the other way round) is an unknown method
    "operator_on_object_defining_only_feeny_add", "operator_on_object_defining_only_feeny_eq", "feeny_spelling_on_object_defining_only_operator",
];

pub fn fault(class: &str, k: usize) -> Fault {
    let f = |expr: &str| Fault { class: FAULT_CLASSES.iter().find(|c| **c == class).copied().unwrap_or("unknown_variable"), defs: vec![], expr: expr.to_string(), own: String::new(), own_exact: true };
    match class {
        "print_long_non_ascii_format_surplus_argument_0" | "print_long_non_ascii_format_surplus_argument_1" | "print_long_non_ascii_format_surplus_argument_2" => {
            let pad = match class.as_bytes()[class.len() - 1] { b'0' => "", b'1' => "a", _ => "ab" };
            let text = format!("{}{}", pad, "€".repeat(2800));
            Fault { own: text.clone(), own_exact: false, ..f(&format!("print(\"{}\", 1)", text)) }
        }
        "print_object_replacement_character_with_argument" => Fault { own: "\u{fffc}\n".into(), own_exact: false, ..f("print(\"\u{fffc}\\n\", 7)") },
        "print_private_use_character_with_argument" => Fault { own: "\u{e000}\u{f8ff}\n".into(), own_exact: false, ..f("print(\"\u{e000}\u{f8ff}\\n\", 7)") },
        "print_nul_character_with_argument" => Fault { own: "a\u{1}b\n".into(), own_exact: false, ..f("print(\"a\u{1}b\\n\", 7)") },
        "operator_on_object_defining_only_feeny_add" => f("(object begin function add(x) -> 1; end) + 1"),
        "operator_on_object_defining_only_feeny_eq" => f("(object begin function eq(x) -> true; function le(x) -> true; end) <= 1"),
        "feeny_spelling_on_object_defining_only_operator" => f("(object begin function +(x) -> 1; end).add(1)"),
        "unknown_variable" => f("zz_undefined_variable"),
        "unknown_variable_in_block" => f("begin let zzq = 1; zz_undefined_variable + zzq end"),
        "unknown_variable_in_function" => {
            let mut x = f(&format!("zzf{}(1)", k));
            x.defs.push(format!("function zzf{}(a) -> zz_undefined_variable + a", k));
            x
        }
        "unknown_function" => f("zz_undefined_function(1, 2)"),
        "unknown_method_object" => f("(object begin let a = 1; end).nope(1)"),
        "unknown_method_int" => f("1.nope(2)"),
        "unknown_method_bool" => f("true.nope(false)"),
        "unknown_method_null" => f("null.nope(null)"),
        "unknown_method_array" => f("array(2, 0).nope()"),
        "unknown_method_through_parent_chain" => f("(object extends (object extends 5 begin end) begin end).nope(1)"),
        "unknown_field_read" => f("(object begin let a = 1; end).b"),
        "unknown_field_write" => f("(object begin let a = 1; end).b <- 2"),
        "field_on_int" => f("(1).a"),
        "field_on_null" => f("null.a"),
        "field_on_array" => f("array(1, 0).a"),
        "arity_function_few" => {
            let mut x = f(&format!("zzg{}(1)", k));
            x.defs.push(format!("function zzg{}(a, b) -> a", k));
            x
        }
        "arity_function_many" => {
            let mut x = f(&format!("zzg{}(1, 2, 3)", k));
            x.defs.push(format!("function zzg{}(a, b) -> a", k));
            x
        }
        "arity_method" => f("(object begin function m(x) -> x; end).m()"),
        "arity_builtin_int" => f("1.+(2, 3)"),
        "arity_array_get" => f("array(2, 0).get()"),
        "arity_array_set" => f("array(2, 0).set(1)"),
        "index_negative" => f("array(3, 0)[-1]"),
        "index_too_large" => f("array(3, 0)[3]"),
        "index_non_integer" => f("array(3, 0)[true]"),
        "index_set_too_large" => f("array(3, 0)[3] <- 1"),
        "index_on_empty_array" => f("array(0, 0)[0]"),
        "size_negative" => f("array(-1, 0)"),
        "size_non_integer" => f("array(true, 0)"),
        "size_null" => f("array(null, 0)"),
        "size_negative_compound" => f("array(0 - 2, 1 + 1)"),
        "operand_int_plus_bool" => f("1 + true"),
        "operand_bool_and_int" => f("true & 1"),
        "operand_int_less_null" => f("1 < null"),
        "operand_null_plus" => f("null + 1"),
        "operand_bool_plus" => f("true + true"),
        "operand_int_and" => f("1 & 2"),
        "print_too_few_arguments" => {
            let mut x = f("print(\"pf ~ ~\\n\", 1)");
            x.own = "pf 1 ".into();
            x.own_exact = false;
            x
        }
        "print_too_many_arguments" => {
            let mut x = f("print(\"pm ~\\n\", 1, 2)");
            x.own = "pm 1\n".into();
            x.own_exact = false;
            x
        }
        "print_no_placeholder_with_argument" => {
            let mut x = f("print(\"pn\\n\", 1)");
            x.own = "pn\n".into();
            x.own_exact = false;
            x
        }
        "print_plain_format_with_argument" => {
            let mut x = f("print(\"pq\", 1)");
            x.own = "pq".into();
            x.own_exact = false;
            x
        }
        "print_empty_format_with_argument" => f("print(\"\", 1)"),
        "print_only_placeholder_no_argument" => f("print(\"~\")"),
        "print_escape_only_format_with_argument" => {
            let mut x = f("print(\"\\t\", 1, 2)");
            x.own = "\t".into();
            x.own_exact = false;
            x
        }
        "feeny_div_by_zero" => f("1.div(0)"),
        "feeny_mod_by_zero" => f("1.mod(0)"),
        "feeny_add_wrong_operand" => f("1.add(true)"),
        "feeny_and_wrong_operand" => f("true.and(1)"),
        "feeny_le_wrong_operand" => f("1.le(null)"),
        "feeny_min_div_minus_one" => f("(-2147483648).div(-1)"),
        "divide_by_zero" => f("1 / 0"),
        "remainder_by_zero" => f("1 % 0"),
        "min_divided_by_minus_one" => f("(-2147483648) / (-1)"),
        "call_method_on_function_result_null" => {
            let mut x = f(&format!("zzn{}().m()", k));
            x.defs.push(format!("function zzn{}() -> null", k));
            x
        }
        "assign_unknown_variable" => f("zz_never_defined <- 1"),
        "arity_function_few_after_correct_call" => {
            let mut x = f(&format!("begin zzr{k}(1, 2); zzr{k}(3, 4); zzr{k}(5) end", k = k));
            x.defs.push(format!("function zzr{}(a, b) -> a + b", k));
            x
        }
        "arity_function_many_after_correct_call" => {
            let mut x = f(&format!("begin zzr{k}(1, 2); zzr{k}(1, 2, 3) end", k = k));
            x.defs.push(format!("function zzr{}(a, b) -> a + b", k));
            x
        }
        "arity_method_after_correct_call" => f("begin let zzo = object begin function m(x) -> x; end; zzo.m(1); zzo.m(2); zzo.m(1, 2) end"),
        "index_too_large_after_valid_access" => f("begin let zza = array(3, 0); zza[0]; zza[2]; zza[3] end"),
        "unknown_method_after_known_method" => f("begin let zzo = object begin function m() -> 1; end; zzo.m(); zzo.nope() end"),
        "unknown_field_after_known_field" => f("begin let zzo = object begin let a = 1; end; zzo.a; zzo.b end"),
        "divide_by_zero_after_valid_division" => f("begin 4 / 2; 4 % 3; 4 / 0 end"),
        "operand_kind_after_valid_operation" => f("begin 1 + 2; true & false; 1 + true end"),
        "unknown_function_after_known_function" => {
            let mut x = f(&format!("begin zzk{k}(); zz_undefined_function() end", k = k));
            x.defs.push(format!("function zzk{}() -> 1", k));
            x
        }
        "builtin_arity_after_valid_call" => f("begin let zza = array(2, 0); zza.get(0); zza.set(1, 5); zza.get() end"),
        "size_negative_after_valid_array" => f("begin array(1, 0); array(0, 0); array(0 - 1, 0) end"),
        "object_without_equality_compared" => f("(object begin let a = 1; end) == 1"),
        "object_without_inequality_compared" => f("(object begin function m() -> 1; end) != null"),
        "object_without_eq_method_called" => f("(object begin end).eq(null)"),
        "inherited_chain_to_null_compared" => f("(object extends (object extends (object begin let a = 1; end) begin end) begin end) == null"),
        "block_local_read_after_block" => f("begin begin let zzt = 6; zzt end; zzt end"),
        "block_local_read_in_later_block" => f("begin begin let zzt = 6; zzt end; begin let zzu = 1; zzt + zzu end end"),
        "block_local_assigned_in_later_block" => f("begin begin let zzt = 6; zzt end; if true then begin zzt <- 2 end end"),
        "block_local_in_function_later_block" => {
            let mut x = f(&format!("zzb{}(1)", k));
            x.defs.push(format!("function zzb{}(a) -> begin begin let zzt = a; zzt end; begin zzt + a end end", k));
            x
        }
        "loop_body_local_read_after_loop" => f("begin let zzi = 0; while zzi < 2 do begin let zzw = zzi; zzi <- zzi + 1 end; begin zzw end end"),
        _ => f("zz_undefined_variable"),
    }
}

pub const PLACEMENTS: &[&str] = &[
    "top_level", "after_partial_line", "loop_iteration", "in_function", "in_inherited_method", "in_argument_list", "in_print_arguments", "in_array_initialiser",
    "in_nested_blocks", "in_conditional_branch",
];

/// Wraps a fault at a placement. Returns (top-level statements to insert, expected own output, exact?).
pub fn place(f: &Fault, placement: &str, k: usize) -> (Vec<String>, String, bool) {
    let e = format!("({})", f.expr);
    let mut stmts = f.defs.clone();
    let own_tail = f.own.clone();
    let (text, own_head): (Vec<String>, String) = match placement {
        "after_partial_line" => (vec![format!("begin print(\"partial{} no newline\"); {} end", k, e)], format!("partial{} no newline", k)),
        "loop_iteration" => (
            vec![format!("let zzi{} = 0", k), format!("while zzi{k} < 3 do begin print(\"it~\\n\", zzi{k}); if zzi{k} == 1 then {e}; zzi{k} <- zzi{k} + 1 end", k = k, e = e)],
            "it0\nit1\n".to_string(),
        ),
        "in_function" => (
            vec![format!("function zzh{}(x) -> begin print(\"in~\\n\", x); {}; print(\"never\\n\") end", k, e), format!("zzh{}(5)", k)],
            "in5\n".to_string(),
        ),
        "in_inherited_method" => (
            vec![
                format!("let zzo{} = object extends (object extends (object begin function m(x) -> begin print(\"m~\\n\", x); {} end; end) begin end) begin let a = 1; end", k, e),
                format!("zzo{}.m(7)", k),
            ],
            "m7\n".to_string(),
        ),
        "in_argument_list" => (
            vec![format!("function zzp{}(a, b, c) -> begin print(\"never\\n\"); a end", k), format!("zzp{}(begin print(\"a1\\n\"); 1 end, {}, begin print(\"never\\n\"); 3 end)", k, e)],
            "a1\n".to_string(),
        ),
        "in_print_arguments" => (vec![format!("print(\"never ~ ~\\n\", begin print(\"a1\\n\"); 1 end, {})", e)], "a1\n".to_string()),
        "in_array_initialiser" => (
            vec![format!("let zzc{} = 0", k), format!("array(4, begin zzc{k} <- zzc{k} + 1; print(\"e~\\n\", zzc{k}); if zzc{k} == 3 then {e} else 0 end)", k = k, e = e)],
            "e1\ne2\ne3\n".to_string(),
        ),
        "in_nested_blocks" => (vec![format!("begin begin begin print(\"nb\\n\"); {} end; print(\"never\\n\") end; print(\"never\\n\") end", e)], "nb\n".to_string()),
        "in_conditional_branch" => (vec![format!("if 1 == 1 then begin print(\"cb\\n\"); {} end else print(\"never\\n\")", e)], "cb\n".to_string()),
        _ => (vec![e.clone()], String::new()),
    };
    stmts.extend(text);
    (stmts, format!("{}{}", own_head, own_tail), f.own_exact)
}

pub fn marker(i: usize) -> String {
    format!("print(\"<<M{}>>\\n\")", i)
}
pub fn marker_text(i: usize) -> String {
    format!("<<M{}>>\n", i)
}

/// Base statements with a marker after each.
pub fn with_markers(base: &[String]) -> Vec<String> {
    let mut v = Vec::new();
    for (i, s) in base.iter().enumerate() {
        v.push(s.clone());
        v.push(marker(i + 1));
    }
    v
}

/// Injected program: fault statements inserted before base statement `k` (1-based; k = n+1 appends).
pub fn injected(base: &[String], k: usize, fault_stmts: &[String]) -> Vec<String> {
    let mut v = Vec::new();
    for (i, s) in base.iter().enumerate() {
        if i + 1 == k {
            v.extend(fault_stmts.iter().cloned());
        }
        v.push(s.clone());
        v.push(marker(i + 1));
    }
    if k == base.len() + 1 {
        v.extend(fault_stmts.iter().cloned());
    }
    v
}

#[derive(Clone, Copy, Debug, PartialEq, Eq, Hash)]
pub enum Path {
    Run,
    Staged,
}

#[derive(Clone, Debug)]
pub struct Case {
    pub base: Vec<String>,
    pub k: usize,
    pub class: String,
    pub placement: String,
    pub path: Path,
    pub profile: Profile,
    /// stdout channel: "pipe" | "file"
    pub channel: String,
    /// shim plan on fd 1 (transient faults only)
    pub plan: String,
    pub hash_seed: u64,
    /// transient faults on the fd the program text / image is read from (EINTR, short reads): must be absorbed
    pub rplan: String,
    /// `plan` holds a hard error on fd 1 (reader gone, disk full) placed at a particular write of this very program: the run
    /// may then end at that print instead of at the guest fault, but never by a signal, and what arrived is a prefix
    pub hard_stdout: bool,
    /// stderr cannot be written (its reader went away: EPIPE from the first write on fd 2): the diagnostic is lost, but the run
    /// still ends with a non-zero status that is not a signal, and stdout is exact
    pub stderr_dead: bool,
    /// the same path held another program a moment ago: the marked base is written to x.fml and run first, then the injected
    /// program replaces it (same second, same size class) and is run — whatever an earlier invocation left must not matter
    pub prior_run: bool,
}

impl Case {
    pub fn to_json(&self) -> Value {
        json!({"engine": ENGINE, "kind": "injection", "base": self.base, "k": self.k, "class": self.class, "placement": self.placement,
               "path": if self.path == Path::Run { "run" } else { "staged" }, "profile": self.profile.name(), "channel": self.channel,
               "plan": self.plan, "hash_seed": self.hash_seed, "rplan": self.rplan, "hard_stdout": self.hard_stdout, "stderr_dead": self.stderr_dead, "prior_run": self.prior_run})
    }
    pub fn from_json(v: &Value) -> Option<Case> {
        Some(Case {
            base: v.get("base")?.as_array()?.iter().filter_map(|s| s.as_str().map(|s| s.to_string())).collect(),
            k: v.get("k")?.as_u64()? as usize,
            class: v.get("class")?.as_str()?.to_string(),
            placement: v.get("placement")?.as_str()?.to_string(),
            path: if v.get("path")?.as_str()? == "run" { Path::Run } else { Path::Staged },
            profile: Profile::from_name(v.get("profile")?.as_str()?)?,
            channel: v.get("channel")?.as_str()?.to_string(),
            plan: v.get("plan")?.as_str()?.to_string(),
            hash_seed: v.get("hash_seed")?.as_u64()?,
            rplan: v.get("rplan").and_then(|x| x.as_str()).unwrap_or("").to_string(),
            hard_stdout: v.get("hard_stdout").and_then(|x| x.as_bool()).unwrap_or(false),
            stderr_dead: v.get("stderr_dead").and_then(|x| x.as_bool()).unwrap_or(false),
            prior_run: v.get("prior_run").and_then(|x| x.as_bool()).unwrap_or(false),
        })
    }
}

pub struct Observed {
    pub exit: Exit,
    pub stdout: Vec<u8>,
    pub stderr: Vec<u8>,
    /// a stage before execution failed (staged path only)
    pub early_stage_failed: Option<String>,
    pub children: u64,
    pub faults_fired: u64,
    /// write calls the final child made on fd 1, and whether a hard error was answered there
    pub o_calls: u64,
    pub hard_fired: bool,
}

fn join_plans(a: &str, b: &str) -> String {
    match (a.is_empty(), b.is_empty()) { (true, _) => b.to_string(), (_, true) => a.to_string(), _ => format!("{};{}", a, b) }
}

fn shim(seed: u64, plan: &str) -> Option<ShimCfg> {
    Some(ShimCfg { seed, plan: plan.to_string(), ..Default::default() })
}

/// Runs a source through `fml run` or through parse | compile | execute.
pub fn run_source(source: &str, path: Path, profile: Profile, channel: &str, plan: &str, seed: u64) -> Observed {
    run_source_ext(source, path, profile, channel, plan, "", &[], seed)
}

/// `rplan`: transient read faults on the fd the source / image is read from; `env`: extra environment of every child.
pub fn run_source_ext(source: &str, path: Path, profile: Profile, channel: &str, plan: &str, rplan: &str, env: &[(String, String)], seed: u64) -> Observed {
    run_source_after(None, source, path, profile, channel, plan, rplan, env, seed)
}

/// `prior`: a program that sat at the same path and was run there (fault-free) just before.
pub fn run_source_after(prior: Option<&str>, source: &str, path: Path, profile: Profile, channel: &str, plan: &str, rplan: &str, env: &[(String, String)], seed: u64) -> Observed {
    let dir = scratch_dir();
    if let Some(p) = prior {
        std::fs::write(dir.join("x.fml"), p).unwrap();
        let mut c = Child::new(profile, &["run", "x.fml"]);
        c.shim = shim(seed, "");
        c.stdout = Out::Null;
        let _ = run_child(&dir, &c);
        if path == Path::Staged {
            for args in [vec!["parse", "x.fml", "-o", "x.json"], vec!["compile", "x.json", "-o", "x.bc"]] { let mut c = Child::new(profile, &args); c.shim = shim(seed, ""); let _ = run_child(&dir, &c); }
        }
    }
    std::fs::write(dir.join("x.fml"), source).unwrap();
    let mut children = 0;
    let mut early = None;
    let set_out = |c: &mut Child| {
        if channel == "file" { c.stdout = Out::File("stdout.txt".into()); } else { c.stdout = Out::Pipe; }
    };
    let final_result: Option<ChildResult> = match path {
        Path::Run => {
            let mut c = Child::new(profile, &["run", "x.fml"]);
            c.shim = shim(seed, &join_plans(plan, rplan));
            c.env = env.to_vec();
            set_out(&mut c);
            children += 1;
            Some(run_child(&dir, &c))
        }
        Path::Staged => {
            let mut c = Child::new(profile, &["parse", "x.fml", "-o", "x.json"]);
            c.shim = shim(seed, rplan);
            c.env = env.to_vec();
            children += 1;
            let r = run_child(&dir, &c);
            if !r.exit.is_success() {
                early = Some(format!("parse: {} {}", r.exit.show(), r.stderr_first_line_masked()));
                Some(r)
            } else {
                let mut c = Child::new(profile, &["compile", "x.json", "-o", "x.bc"]);
                c.shim = shim(seed, "");
                c.env = env.to_vec();
                children += 1;
                let r = run_child(&dir, &c);
                if !r.exit.is_success() {
                    early = Some(format!("compile: {} {}", r.exit.show(), r.stderr_first_line_masked()));
                    Some(r)
                } else {
                    let mut c = Child::new(profile, &["execute", "x.bc"]);
                    c.shim = shim(seed, &join_plans(plan, rplan));
                    c.env = env.to_vec();
                    set_out(&mut c);
                    children += 1;
                    Some(run_child(&dir, &c))
                }
            }
        }
    };
    let r = final_result.unwrap();
    let _ = std::fs::remove_dir_all(&dir);
    let fired = r.trace.lines().filter(|l| (l.starts_with("W o ") && (l.ends_with("short") || l.contains("-> E"))) || (l.starts_with("R ") && (l.ends_with("cut") || l.ends_with("-> E4")))).count() as u64;
    let o_calls = r.trace.lines().filter(|l| l.starts_with("W o ")).count() as u64;
    let hard_fired = r.trace.lines().any(|l| l.starts_with("W o ") && l.contains("-> E") && !l.ends_with("-> E4"));
    Observed { exit: r.exit, stdout: r.stdout, stderr: r.stderr, early_stage_failed: early, children, faults_fired: fired, o_calls, hard_fired }
}

/// Fault-free run of the marked base: must succeed, with empty stderr, and every marker exactly once.
/// Returns its stdout.
pub fn base_output(base: &[String], path: Path, profile: Profile, seed: u64) -> Result<(Vec<u8>, u64), String> {
    let source = work::join_stmts(&with_markers(base));
    let o = run_source(&source, path, profile, "pipe", "", seed);
    if let Some(e) = o.early_stage_failed {
        return Err(format!("stage failed: {}", e));
    }
    if !o.exit.is_success() {
        return Err(format!("base fails: {}", o.exit.show()));
    }
    if !o.stderr.is_empty() {
        return Err("BASE_STDERR_NOT_EMPTY".into());
    }
    let text = String::from_utf8_lossy(&o.stdout).to_string();
    for i in 1..=base.len() {
        if text.matches(&marker_text(i)).count() != 1 {
            return Err(format!("marker {} does not appear exactly once", i));
        }
    }
    Ok((o.stdout, o.children))
}

fn prefix_through_marker(base_stdout: &[u8], k_minus_1: usize) -> Vec<u8> {
    if k_minus_1 == 0 {
        return Vec::new();
    }
    let m = marker_text(k_minus_1);
    let hay = base_stdout;
    let needle = m.as_bytes();
    let pos = hay.windows(needle.len()).position(|w| w == needle).map(|p| p + needle.len()).unwrap_or(0);
    hay[..pos].to_vec()
}

pub fn judge(case: &Case, base_stdout: &[u8], own: &str, own_exact: bool, o: &Observed) -> Option<(String, String)> {
    if o.exit == Exit::Timeout {
        return None; // resource exhaustion of the watchdog is not a verdict
    }
    if let Some(e) = &o.early_stage_failed {
        // the injected statement is valid source that compiles; a stage refusing it is reported
        return Some(("O0:stage_refuses_injected_program".into(), e.clone()));
    }
    if case.hard_stdout && o.hard_fired {
        // stdout failed for good at one of this program's own writes: the run may end there (any non-signal status), and nothing
        // is claimed about how; but it never dies by a signal, and what arrived is a prefix of what the program prints
        if o.exit.is_native_crash() {
            return Some(("O8:died_by_signal_when_stdout_failed".into(), format!("{} for fault class {} at {} with stdout plan `{}`", o.exit.show(), case.class, case.placement, case.plan)));
        }
        let mut expected = prefix_through_marker(base_stdout, case.k - 1);
        expected.extend_from_slice(own.as_bytes());
        if !expected.starts_with(&o.stdout) {
            let at = first_difference(&o.stdout, &expected).unwrap_or(0);
            return Some(("O8:output_not_a_prefix_when_stdout_failed".into(), format!("class {} placement {} position {} with stdout plan `{}`: {} bytes arrived, first difference from the expected output at {}", case.class, case.placement, case.k, case.plan, o.stdout.len(), at)));
        }
        return None;
    }
    if o.exit.is_native_crash() {
        return Some(("O2:died_by_signal".into(), format!("{} for fault class {} at {}", o.exit.show(), case.class, case.placement)));
    }
    if o.exit.is_success() {
        return Some(("O2:exit_status_zero_after_fault".into(), format!("fault class {} at position {} ({}) ended with exit 0", case.class, case.k, case.placement)));
    }
    let prefix = prefix_through_marker(base_stdout, case.k - 1);
    let mut expected = prefix.clone();
    expected.extend_from_slice(own.as_bytes());
    let ok = if own_exact {
        o.stdout == expected
    } else {
        o.stdout.len() >= prefix.len() && o.stdout.len() <= expected.len() && expected.starts_with(&o.stdout)
    };
    if !ok {
        let at = first_difference(&o.stdout, &expected).unwrap_or(0);
        let what = if o.stdout.len() < expected.len() && expected.starts_with(&o.stdout) {
            "O1:output_before_fault_lost"
        } else if o.stdout.starts_with(&expected) {
            "O1:execution_continued_after_fault"
        } else {
            "O1:stdout_differs_from_prefix"
        };
        return Some((what.into(), format!("class {} placement {} position {}: stdout has {} bytes, expected {} (prefix {} + own {}), first difference at {}",
            case.class, case.placement, case.k, o.stdout.len(), expected.len(), prefix.len(), own.len(), at)));
    }
    if o.stderr.is_empty() && !case.stderr_dead {
        return Some(("O3:no_diagnostic_on_stderr".into(), format!("class {} failed with {} but stderr is empty", case.class, o.exit.show())));
    }
    None
}

pub fn replay_case(case: &Case) -> Result<Option<(String, String)>, String> {
    let (base_stdout, _) = match base_output(&case.base, case.path, case.profile, case.hash_seed) {
        Ok(x) => x,
        Err(e) if e == "BASE_STDERR_NOT_EMPTY" => return Ok(Some(("O7:successful_run_wrote_to_stderr".into(), "base program exits 0 but stderr is not empty".into()))),
        Err(_) => return Ok(None), // not a valid base any more (e.g. after shrinking): no verdict
    };
    let f = fault(&case.class, case.k);
    let (stmts, own, exact) = place(&f, &case.placement, case.k);
    let source = work::join_stmts(&injected(&case.base, case.k, &stmts));
    let plan = if case.stderr_dead { join_plans(&case.plan, "e:0:x:32") } else { case.plan.clone() };
    let prior = if case.prior_run { Some(work::join_stmts(&with_markers(&case.base))) } else { None };
    let o = run_source_after(prior.as_deref(), &source, case.path, case.profile, &case.channel, &plan, &case.rplan, &[], case.hash_seed);
    Ok(judge(case, &base_stdout, &own, exact, &o))
}

fn class_of(o: &str) -> String { o.split(':').next().unwrap_or(o).to_string() }

pub fn minimise(case: &Case, oracle: &str) -> Case {
    let want = class_of(oracle);
    let still = |c: &Case| matches!(replay_case(c), Ok(Some((o, _))) if class_of(&o) == want);
    let mut best = case.clone();
    if !best.plan.is_empty() {
        let mut c = best.clone();
        c.plan = String::new();
        if still(&c) { best = c; }
    }
    if !best.rplan.is_empty() {
        let mut c = best.clone();
        c.rplan = String::new();
        if still(&c) { best = c; }
    }
    if best.stderr_dead { let mut c = best.clone(); c.stderr_dead = false; if still(&c) { best = c; } }
    if best.prior_run { let mut c = best.clone(); c.prior_run = false; if still(&c) { best = c; } }
    // statements after the injection point never run: drop them first, then earlier ones
    let mut j = best.base.len();
    while j > 0 {
        j -= 1;
        let mut c = best.clone();
        c.base.remove(j);
        if j + 1 < c.k { c.k -= 1; } else if c.k > c.base.len() + 1 { c.k = c.base.len() + 1; }
        if c.k >= 1 && still(&c) { best = c; }
    }
    if best.placement != "top_level" {
        let mut c = best.clone();
        c.placement = "top_level".into();
        if still(&c) { best = c; }
    }
    if best.path != Path::Run {
        let mut c = best.clone();
        c.path = Path::Run;
        if still(&c) { best = c; }
    }
    if best.profile != Profile::Debug {
        let mut c = best.clone();
        c.profile = Profile::Debug;
        if still(&c) { best = c; }
    }
    if best.channel != "pipe" {
        let mut c = best.clone();
        c.channel = "pipe".into();
        if still(&c) { best = c; }
    }
    best
}

// ------------------------------------------------------------------------------------------------
// O5: malformed sources

fn tokens(source: &str) -> Vec<String> {
    // a coarse lexer: identifiers/numbers, string literals, and single punctuation characters
    let mut out = Vec::new();
    let cs: Vec<char> = source.chars().collect();
    let mut i = 0;
    while i < cs.len() {
        let c = cs[i];
        if c.is_whitespace() {
            let mut s = String::new();
            while i < cs.len() && cs[i].is_whitespace() { s.push(cs[i]); i += 1; }
            out.push(s);
        } else if c.is_alphanumeric() || c == '_' {
            let mut s = String::new();
            while i < cs.len() && (cs[i].is_alphanumeric() || cs[i] == '_') { s.push(cs[i]); i += 1; }
            out.push(s);
        } else if c == '"' {
            let mut s = String::from('"');
            i += 1;
            while i < cs.len() {
                s.push(cs[i]);
                if cs[i] == '\\' && i + 1 < cs.len() { i += 1; s.push(cs[i]); } else if cs[i] == '"' { i += 1; break; }
                i += 1;
            }
            out.push(s);
        } else {
            out.push(c.to_string());
            i += 1;
        }
    }
    out
}

pub fn mutate_source(source: &str, rng: &mut Rng) -> (String, &'static str) {
    let mut t = tokens(source);
    if t.is_empty() {
        return ("$".into(), "garbage");
    }
    let solid: Vec<usize> = (0..t.len()).filter(|i| !t[*i].trim().is_empty()).collect();
    if solid.is_empty() {
        return ("$".into(), "garbage");
    }
    let i = *rng.pick(&solid);
    let kind = match rng.below(11) {
        // what other tools put in front of or behind a program text: a `#!` line, a byte-order mark, a form feed, a trailing NUL or ^Z
        9 => { let pre = *rng.pick(&["#!/usr/bin/env fml\n", "#!fml run\n", "\u{feff}", "#! \n", "\u{c}", "#\n"]); return (format!("{}{}", pre, t.concat()), "prepend_foreign_first_line"); }
        10 => { let post = *rng.pick(&["\u{0}", "\u{1a}", "\n#!end\n", "\n\u{feff}"]); return (format!("{}{}", t.concat(), post), "append_foreign_tail"); }
        0 => { t.remove(i); "delete_token" }
        1 => { let x = t[i].clone(); t.insert(i, x); "duplicate_token" }
        2 => { let j = *rng.pick(&solid); t.swap(i, j); "swap_tokens" }
        3 => {
            let r = *rng.pick(&["end", "begin", ")", "(", ";", "<-", "->", "let", "if", "then", "else", "while", "do", "function", "object", "=", ",", "]", "[", ".", "\"", "$", "@", "#", "{", "}", "'", "`", "?", "\\", "99999999999", "0x10", "1.5", "/*", "*/"]);
            t[i] = r.to_string();
            "replace_token"
        }
        4 => {
            let s = t.concat();
            let mut cut = rng.usize_below(s.len().max(1));
            while !s.is_char_boundary(cut) { cut -= 1; }
            return (s[..cut].to_string(), "truncate");
        }
        5 => { t.insert(i, "\"unterminated string ".to_string()); "unterminated_string" }
        6 => { t.insert(i, "/* unterminated comment ".to_string()); "unterminated_comment" }
        7 => { t.insert(i, (*rng.pick(&["$", "@", "#", "\u{0}", "€", "\\", "`", "^", "~", "?"])).to_string()); "insert_garbage" }
        _ => { t.insert(i, "\"bad \\q escape\"".to_string()); "bad_escape" }
    };
    (t.concat(), kind)
}

#[derive(Clone, Debug)]
pub struct MalformedCase {
    pub source: String,
    pub profile: Profile,
    pub via_stdin: bool,
    /// Some((byte offset, raw bytes)): bytes spliced into the file that make it invalid UTF-8 (0xFF, a truncated sequence, a lone surrogate half)
    pub raw_splice: Option<(usize, Vec<u8>)>,
}

impl MalformedCase {
    pub fn to_json(&self) -> Value {
        json!({"engine": ENGINE, "kind": "malformed_source", "source": self.source, "profile": self.profile.name(), "via_stdin": self.via_stdin,
               "raw_splice": self.raw_splice.as_ref().map(|(at, b)| json!([at, b]))})
    }
    pub fn from_json(v: &Value) -> Option<MalformedCase> {
        let raw_splice = v.get("raw_splice").and_then(|r| r.as_array()).and_then(|a| {
            Some((a.get(0)?.as_u64()? as usize, a.get(1)?.as_array()?.iter().filter_map(|b| b.as_u64().map(|b| b as u8)).collect::<Vec<u8>>()))
        });
        Some(MalformedCase { source: v.get("source")?.as_str()?.to_string(), profile: Profile::from_name(v.get("profile")?.as_str()?)?, via_stdin: v.get("via_stdin")?.as_bool()?, raw_splice })
    }
}

/// Some(Some(violation)) / Some(None) = parser rejects and run behaves / None = parser accepts (no claim)
pub fn judge_malformed(c: &MalformedCase) -> Option<Option<(String, String)>> {
    let dir = scratch_dir();
    let mut bytes = c.source.as_bytes().to_vec();
    if let Some((at, raw)) = &c.raw_splice {
        let at = (*at).min(bytes.len());
        let tail = bytes.split_off(at);
        bytes.extend_from_slice(raw);
        bytes.extend_from_slice(&tail);
    }
    std::fs::write(dir.join("x.fml"), &bytes).unwrap();
    let mut p = if c.via_stdin { Child::new(c.profile, &["parse", "--format", "json"]) } else { Child::new(c.profile, &["parse", "x.fml", "--format", "json"]) };
    if c.via_stdin { p.stdin = In::File("x.fml".into()); }
    p.shim = shim(3, "");
    let pr = run_child(&dir, &p);
    let verdict = if pr.exit.is_native_crash() {
        Some(Some(("O5:parser_died_by_signal".to_string(), pr.exit.show())))
    } else if pr.exit.is_success() || pr.exit == Exit::Timeout {
        None
    } else {
        let mut r = if c.via_stdin { Child::new(c.profile, &["run"]) } else { Child::new(c.profile, &["run", "x.fml"]) };
        if c.via_stdin { r.stdin = In::File("x.fml".into()); }
        r.shim = shim(3, "");
        let rr = run_child(&dir, &r);
        Some(if rr.exit.is_native_crash() {
            Some(("O5:run_died_by_signal_on_invalid_source".to_string(), rr.exit.show()))
        } else if rr.exit.is_success() {
            Some(("O5:invalid_source_accepted_by_run".to_string(), "`fml parse` rejects the text but `fml run` exits 0".to_string()))
        } else if !rr.stdout.is_empty() {
            Some(("O5:invalid_source_produced_output".to_string(), format!("{} bytes on stdout before rejecting", rr.stdout.len())))
        } else if rr.stderr.is_empty() {
            Some(("O5:invalid_source_rejected_without_diagnostic".to_string(), rr.exit.show()))
        } else if pr.stderr.is_empty() {
            Some(("O5:parser_rejected_without_diagnostic".to_string(), pr.exit.show()))
        } else {
            None
        })
    };
    let _ = std::fs::remove_dir_all(&dir);
    verdict
}

// ------------------------------------------------------------------------------------------------
// O6: stress templates inside the property's bounds — never a native crash

pub fn stress_templates() -> Vec<(String, String)> {
    let mut v: Vec<(String, String)> = Vec::new();
    // cyclic heap graphs reaching print
    for n in [1usize, 2, 3, 10, 50] {
        let mut s = String::new();
        for i in 0..n { s.push_str(&format!("let c{} = object begin let next = null; let id = {}; end;\n", i, i)); }
        for i in 0..n { s.push_str(&format!("c{}.next <- c{};\n", i, (i + 1) % n)); }
        s.push_str("print(\"before\\n\");\nprint(\"~\\n\", c0);\nprint(\"after\\n\")\n");
        v.push((format!("cyclic_object_ring_{}", n), s));
        let mut s = String::new();
        for i in 0..n { s.push_str(&format!("let r{} = array(2, {});\n", i, i)); }
        for i in 0..n { s.push_str(&format!("r{}[1] <- r{};\n", i, (i + 1) % n)); }
        s.push_str("print(\"before\\n\");\nprint(\"~\\n\", r0);\nprint(\"after\\n\")\n");
        v.push((format!("cyclic_array_ring_{}", n), s));
    }
    // the same cycles met on a heap that already holds very many values (anything an implementation bounds by the heap's
    // size instead of by the path — a depth counter, a visited bitmap, a per-print table — is exercised here)
    for n in [20_000usize, 300_000] {
        v.push((format!("cyclic_object_on_a_heap_of_{}", n), format!("let i = 0;\nlet keep = null;\nwhile i < {} do begin keep <- array(1, i); i <- i + 1 end;\nlet o = object begin let next = null; end;\no.next <- o;\nprint(\"before\\n\");\nprint(\"~\\n\", o);\nprint(\"after\\n\")\n", n)));
        v.push((format!("cyclic_array_on_a_heap_of_{}", n), format!("let i = 0;\nlet keep = null;\nwhile i < {} do begin keep <- object begin let n = i; end; i <- i + 1 end;\nlet a = array(2, 0);\na[1] <- a;\nprint(\"before\\n\");\nprint(\"~\\n\", a);\nprint(\"after\\n\")\n", n)));
    }
    v.push(("cyclic_object_via_parent_field".into(), "let p = object begin let child = null; end;\nlet q = object extends p begin let x = 1; end;\np.child <- q;\nprint(\"partial \");\nprint(\"~\\n\", q)\n".into()));
    v.push(("cycle_mixed_array_object".into(), "let a = array(1, null);\nlet o = object begin let arr = a; end;\na[0] <- o;\nprint(\"~\\n\", a)\n".into()));
    v.push(("cycle_dispatch_not_print".into(), "let o = object begin let me = null; function m() -> 1; end;\no.me <- o;\nprint(\"~\\n\", o.me.me.me.m())\n".into()));
    // acyclic chains up to 10^3 links reaching print and dispatch
    for n in [10usize, 100, 1000] {
        v.push((format!("parent_chain_{}_dispatch_and_print", n), format!(
            "let o = object begin function m() -> 7; end;\nlet i = 0;\nwhile i < {} do begin o <- object extends o begin end; i <- i + 1 end;\nprint(\"~\\n\", o.m());\nprint(\"~\\n\", o)\n", n)));
        v.push((format!("array_chain_{}_print", n), format!(
            "let a = array(1, null);\nlet i = 0;\nwhile i < {} do begin a <- array(1, a); i <- i + 1 end;\nprint(\"~\\n\", a)\n", n)));
        v.push((format!("field_chain_{}_print", n), format!(
            "let o = object begin let next = null; end;\nlet i = 0;\nwhile i < {} do begin o <- object begin let next = o; end; i <- i + 1 end;\nprint(\"~\\n\", o)\n", n)));
        v.push((format!("parent_chain_{}_missing_method", n), format!(
            "let o = object begin end;\nlet i = 0;\nwhile i < {} do begin o <- object extends o begin end; i <- i + 1 end;\no.nope()\n", n)));
    }
    // FML call depth up to 10^5
    for n in [1000usize, 10_000, 100_000] {
        v.push((format!("call_depth_{}", n), format!("function r(n) -> if n == 0 then 0 else 1 + r(n - 1);\nprint(\"~\\n\", r({}))\n", n)));
        v.push((format!("method_call_depth_{}", n), format!("let o = object begin function r(n) -> if n == 0 then 0 else 1 + this.r(n - 1); end;\nprint(\"~\\n\", o.r({}))\n", n)));
    }
    // ordinary programs at scale: thresholds of the format and of the implementation's buffers
    for (name, src) in work::scale_templates() {
        v.push((format!("scale_{}", name), src));
    }
    // source nesting depth up to 200
    for n in [50usize, 100, 200] {
        v.push((format!("nested_parentheses_{}", n), format!("print(\"~\\n\", {}1{})\n", "(".repeat(n), ")".repeat(n))));
        v.push((format!("nested_blocks_{}", n), format!("{}print(\"deep\\n\"){}\n", "begin ".repeat(n), " end".repeat(n))));
        v.push((format!("nested_operators_{}", n), format!("print(\"~\\n\", {}1{})\n", "1 + (".repeat(n), ")".repeat(n))));
        v.push((format!("nested_conditionals_{}", n), format!("{}print(\"deep\\n\")\n", "if true then ".repeat(n))));
        v.push((format!("nested_calls_{}", n), format!("function id(x) -> x;\nprint(\"~\\n\", {}1{})\n", "id(".repeat(n), ")".repeat(n))));
        v.push((format!("nested_array_initialisers_{}", n.min(60)), format!("print(\"~\\n\", {}0{})\n", "array(1, ".repeat(n.min(60)), ")".repeat(n.min(60)))));
        v.push((format!("nested_objects_{}", n.min(60)), format!("print(\"~\\n\", {}1{})\n", "object extends (".repeat(n.min(60)), ") begin end".repeat(n.min(60)))));
    }
    v
}

/// A seeded random heap graph ("however its values reference one another"): objects (with parents,
/// fields, a method) and arrays, wired by random field/element assignments that may form cycles of any
/// shape — rings, tails leading into loops, shared sub-graphs — then printed from and dispatched on
/// random nodes.
pub fn random_graph_program(rng: &mut Rng) -> String {
    let cap = if rng.below(5) == 0 { 40 } else { 9 };
    let n = 2 + rng.usize_below(cap);
    let mut kinds: Vec<bool> = Vec::new(); // true = object
    let mut lens: Vec<usize> = Vec::new();
    let mut s = String::new();
    for i in 0..n {
        let is_obj = rng.below(3) != 0;
        kinds.push(is_obj);
        if is_obj {
            let parent = match rng.below(5) {
                0 if i > 0 => format!(" extends n{}", rng.usize_below(i)),
                1 => " extends 7".to_string(),
                2 => " extends true".to_string(),
                _ => String::new(),
            };
            let method = if rng.coin() { format!(" function m() -> {};", i) } else { String::new() };
            s.push_str(&format!("let n{} = object{} begin let a = null; let b = {};{} end;\n", i, parent, i, method));
            lens.push(0);
        } else {
            let len = 1 + rng.usize_below(3);
            s.push_str(&format!("let n{} = array({}, null);\n", i, len));
            lens.push(len);
        }
    }
    let edges = n + rng.usize_below(2 * n);
    for _ in 0..edges {
        let a = rng.usize_below(n);
        let b = rng.usize_below(n);
        if kinds[a] {
            s.push_str(&format!("n{}.{} <- n{};\n", a, if rng.coin() { "a" } else { "b" }, b));
        } else {
            let k = rng.usize_below(lens[a]);
            s.push_str(&format!("n{}[{}] <- n{};\n", a, k, b));
        }
    }
    s.push_str("print(\"partial \");\n");
    for _ in 0..(1 + rng.usize_below(3)) {
        let r = rng.usize_below(n);
        match rng.below(4) {
            0 if kinds[r] => s.push_str(&format!("print(\"~\\n\", n{}.m());\n", r)),
            1 => { let q = rng.usize_below(n); s.push_str(&format!("print(\"~ and ~\\n\", n{}, n{});\n", r, q)) }
            _ => s.push_str(&format!("print(\"~\\n\", n{});\n", r)),
        }
    }
    s.push_str("print(\"end\\n\")\n");
    s
}

fn shrink_stress(c: &StressCase) -> StressCase {
    let want = match judge_stress(c) { Some((o, _)) => o, None => return c.clone() };
    let mut lines: Vec<String> = c.source.split(";\n").map(|l| l.to_string()).collect();
    let mut j = lines.len();
    while j > 0 {
        j -= 1;
        if lines.len() <= 1 { break; }
        let mut cand = lines.clone();
        cand.remove(j);
        let cc = StressCase { source: cand.join(";\n"), ..c.clone() };
        if matches!(judge_stress(&cc), Some((o, _)) if o == want) { lines = cand; }
    }
    StressCase { source: lines.join(";\n"), ..c.clone() }
}

#[derive(Clone, Debug)]
pub struct StressCase {
    pub name: String,
    pub source: String,
    pub profile: Profile,
    pub path: Path,
    /// extra environment of the children (RUST_MIN_STACK and friends: no bound of the property may depend on it)
    pub env: Vec<(String, String)>,
}

impl StressCase {
    pub fn to_json(&self) -> Value {
        json!({"engine": ENGINE, "kind": "stress", "name": self.name, "source": self.source, "profile": self.profile.name(), "path": if self.path == Path::Run { "run" } else { "staged" }, "env": self.env})
    }
    pub fn from_json(v: &Value) -> Option<StressCase> {
        let env = v.get("env").and_then(|e| e.as_array()).map(|a| a.iter().filter_map(|e| Some((e.get(0)?.as_str()?.to_string(), e.get(1)?.as_str()?.to_string()))).collect()).unwrap_or_default();
        Some(StressCase { name: v.get("name")?.as_str()?.to_string(), source: v.get("source")?.as_str()?.to_string(), profile: Profile::from_name(v.get("profile")?.as_str()?)?,
                          path: if v.get("path")?.as_str()? == "run" { Path::Run } else { Path::Staged }, env })
    }
}

pub fn judge_stress(c: &StressCase) -> Option<(String, String)> {
    let o = run_source_ext(&c.source, c.path, c.profile, "pipe", "", "", &c.env, 5);
    if o.exit.is_native_crash() {
        let stage = o.early_stage_failed.clone().unwrap_or_else(|| "execution".into());
        return Some(("O6:native_crash".into(), format!("template {} ({}, {}): {} during {}; stdout held {} bytes", c.name, c.profile.name(), if c.path == Path::Run { "run" } else { "staged" }, o.exit.show(), first_line(&stage, 60), o.stdout.len())));
    }
    if o.exit.is_success() && !o.stderr.is_empty() && o.early_stage_failed.is_none() {
        return Some(("O7:successful_run_wrote_to_stderr".into(), format!("template {}", c.name)));
    }
    if !o.exit.is_success() && o.exit != Exit::Timeout && o.stderr.is_empty() {
        return Some(("O3:no_diagnostic_on_stderr".into(), format!("template {} failed with {} silently", c.name, o.exit.show())));
    }
    None
}

// ------------------------------------------------------------------------------------------------

struct Out1 {
    evaluations: u64,
    children: u64,
    distinct: Vec<u64>,
    counters: Vec<(String, u64)>,
    violations: Vec<(Value, String, String, Value)>, // replay json, oracle, detail, signature
    sample: Option<Value>,
}

fn exercise_base(idx: usize, base: &[String], rng: &mut Rng, thorough: bool) -> Out1 {
    let mut out = Out1 { evaluations: 0, children: 0, distinct: vec![], counters: vec![], violations: vec![], sample: None };
    let spec = ProgSpec::Stmts(with_markers(base));
    if work::qualify(&spec, 150_000).map(|r| r.end != super::vm::RunEnd::Ok).unwrap_or(true) {
        out.counters.push(("bases_discarded_not_succeeding_in_process".into(), 1));
        return out;
    }
    let digest = digest_bytes(work::join_stmts(base).as_bytes());
    let hash_seed = rng.next_u64();
    // base outputs per (path, profile), computed on demand
    let mut bases: Vec<((Path, Profile), Result<Vec<u8>, String>)> = Vec::new();
    let n = base.len();
    for k in 1..=(n + 1) {
        let classes: Vec<&str> = if thorough {
            FAULT_CLASSES.to_vec()
        } else {
            (0..3).map(|_| *rng.pick(FAULT_CLASSES)).collect()
        };
        for class in classes {
            let placements: Vec<&str> = if thorough { PLACEMENTS.to_vec() } else { vec!["top_level", *rng.pick(PLACEMENTS)] };
            for placement in placements {
                let path = if rng.below(3) == 0 { Path::Staged } else { Path::Run };
                let profile = if rng.coin() { Profile::Debug } else { Profile::Release };
                let channel = if rng.below(3) == 0 { "file" } else { "pipe" };
                let plan = match rng.below(5) {
                    0 => format!("o:*:l:{}", rng.pick(&[1u32, 2, 3, 5, 8])),
                    1 => format!("o:{}:e:0", rng.below(6)),
                    2 => format!("o:{}:s:1;o:{}:e:0", rng.below(4), 1 + rng.below(5)),
                    _ => String::new(),
                };
                // one case in five: transient faults on the fd the program is read from (the first or second read interrupted, short deliveries)
                let rplan = match rng.below(10) { 0 => format!("r:{}:e:0", rng.below(2)), 1 => format!("r:*:l:{}", rng.pick(&[1u32, 7, 100])), _ => String::new() };
                let mut case = Case { base: base.to_vec(), k, class: class.to_string(), placement: placement.to_string(), path, profile, channel: channel.to_string(), plan, hash_seed, rplan, hard_stdout: false, stderr_dead: rng.below(12) == 0, prior_run: rng.below(10) == 0 };
                let want_hard_stdout = rng.below(6) == 0;
                let (hard_at, hard_errno, hard_short) = (rng.below(4), *rng.pick(&[28u32, 32, 5, 27]), rng.coin());
                let key = (path, profile);
                if !bases.iter().any(|(k2, _)| *k2 == key) {
                    let r = base_output(base, path, profile, hash_seed);
                    if let Ok((_, ch)) = &r { out.children += ch; }
                    bases.push((key, r.map(|(b, _)| b)));
                }
                let base_stdout = match &bases.iter().find(|(k2, _)| *k2 == key).unwrap().1 {
                    Ok(b) => b.clone(),
                    Err(e) if e == "BASE_STDERR_NOT_EMPTY" => {
                        out.violations.push((case.to_json(), "O7:successful_run_wrote_to_stderr".into(), "base program exits 0 but stderr is not empty".into(), json!({"engine": ENGINE, "oracle": "O7"})));
                        continue;
                    }
                    Err(_) => {
                        out.counters.push(("injections_skipped_base_not_valid_at_process_level".into(), 1));
                        continue;
                    }
                };
                let f = fault(class, k);
                let (stmts, own, exact) = place(&f, placement, k);
                let source = work::join_stmts(&injected(base, k, &stmts));
                if want_hard_stdout {
                    // where this very program writes: count its write calls on fd 1 in an undisturbed run, then fail the first, the
                    // last (the one carrying what is still buffered when the fault strikes), the last but one, or the middle one
                    let clean = run_source(&source, path, profile, channel, "", hash_seed);
                    out.children += clean.children;
                    if clean.o_calls > 0 {
                        let n = clean.o_calls;
                        let at = match hard_at { 0 => 0, 1 => n - 1, 2 => n.saturating_sub(2), _ => n / 2 };
                        case.plan = if hard_short { format!("o:{}:s:1;o:{}:x:{}", at, at + 1, hard_errno) } else { format!("o:{}:x:{}", at, hard_errno) };
                        case.hard_stdout = true;
                    }
                }
                let plan_now = if case.stderr_dead { join_plans(&case.plan, "e:0:x:32") } else { case.plan.clone() };
                let prior = if case.prior_run { Some(work::join_stmts(&with_markers(base))) } else { None };
                let o = run_source_after(prior.as_deref(), &source, path, profile, channel, &plan_now, &case.rplan, &[], hash_seed);
                out.children += o.children;
                out.evaluations += 1;
                if case.stderr_dead { out.counters.push(("injections_with_stderr_unwritable".into(), 1)); }
                if case.prior_run { out.counters.push(("injections_run_after_another_program_at_the_same_path".into(), 1)); }
                if case.hard_stdout && o.hard_fired { out.counters.push(("injections_with_hard_error_on_stdout_fired".into(), 1)); }
                if !case.rplan.is_empty() { out.counters.push(("injections_with_transient_faults_on_the_source_fd".into(), 1)); }
                out.distinct.push(digest_of(&(digest, k, class, placement, path, profile, channel, &case.plan, &case.rplan)));
                out.counters.push((format!("fault_class.{}", class), 1));
                out.counters.push((format!("placement.{}", placement), 1));
                if o.faults_fired > 0 { out.counters.push(("injections_with_stdout_write_fault_fired".into(), 1)); }
                if placement == "after_partial_line" { out.counters.push(("probe.partial_line_before_fault".into(), 1)); }
                if let Some((oracle, detail)) = judge(&case, &base_stdout, &own, exact, &o) {
                    let sig = json!({"engine": ENGINE, "oracle": oracle, "class": class});
                    out.violations.push((case.to_json(), oracle, detail, sig));
                }
                if out.sample.is_none() && rng.below(25) == 0 {
                    out.sample = Some(json!({"base_index": idx, "base_statements": n, "position": k, "class": class, "placement": placement, "inserted": stmts,
                        "path": if path == Path::Run { "run" } else { "staged" }, "profile": profile.name(), "channel": channel, "stdout_plan": case.plan,
                        "exit": o.exit.show(), "stdout_bytes": o.stdout.len(), "expected_prefix_bytes": prefix_through_marker(&base_stdout, k - 1).len(),
                        "stderr_first_line_digits_masked": String::from_utf8_lossy(&o.stderr).lines().find(|l| !l.trim().is_empty()).map(|l| super::util::mask_digits(&first_line(l, 100)))}));
                }
            }
        }
    }
    out
}

pub fn run(seed: u64, tier: &str, ev: &mut Evidence) -> Vec<Violation> {
    let thorough = tier == "thorough";
    let (n_bases, n_malformed) = if thorough { (450usize, 40_000usize) } else { (200, 2500) };
    // ---- injection at every statement position -----------------------------------------------
    let mut bases: Vec<Vec<String>> = Vec::new();
    for j in 0..n_bases {
        let mut rng = Rng::for_case(seed, "C10", "workload", j as u64);
        let mut cfg = GenCfg::swarm(&mut rng);
        cfg.stmts = 2 + rng.usize_below(if thorough { 6 } else { 10 });
        cfg.tame_arith = true;
        if cfg.strings == StrRegime::Long { cfg.strings = StrRegime::Mixed; }
        if let (ProgSpec::Stmts(v), _) = work::gen_source_spec(&mut rng, &cfg) {
            bases.push(v.into_iter().take(12).collect());
        }
    }
    let outs: Vec<Out1> = par_map(bases.len(), |i| {
        let mut rng = Rng::for_case(seed, "C10", ENGINE, i as u64);
        exercise_base(i, &bases[i], &mut rng, thorough)
    });
    let mut raw: Vec<(Value, String, String, Value)> = Vec::new();
    let mut children = 0u64;
    for o in outs {
        ev.evaluations += o.evaluations;
        children += o.children;
        for d in o.distinct { ev.distinct.insert(d); }
        for (k, n) in o.counters { ev.count(&k, n); }
        if let Some(s) = o.sample { ev.sample(s); }
        raw.extend(o.violations);
    }
    // ---- malformed sources ---------------------------------------------------------------------
    let corpus: Vec<String> = work::corpus_specs().into_iter().filter_map(|(_, s)| s.source()).collect();
    let mal: Vec<(Option<Option<(String, String)>>, MalformedCase, &'static str)> = par_map(n_malformed, |i| {
        let mut rng = Rng::for_case(seed, "C10", "malformed", i as u64);
        let src = if rng.coin() && !corpus.is_empty() {
            rng.pick(&corpus).clone()
        } else {
            let mut cfg = GenCfg::small(&mut rng);
            cfg.tame_arith = true;
            work::gen_source_spec(&mut rng, &cfg).0.source().unwrap_or_default()
        };
        let (mutated, kind) = if rng.below(10) == 0 { (src.clone(), "invalid_utf8") } else { mutate_source(&src, &mut rng) };
        let raw_splice = if kind == "invalid_utf8" {
            let mut at = rng.usize_below(mutated.len() + 1);
            while !mutated.is_char_boundary(at) { at -= 1; }
            Some((at, rng.pick(&[vec![0xFFu8], vec![0xC3], vec![0xE2, 0x82], vec![0xED, 0xA0, 0x80], vec![0xF0, 0x9F], vec![0x80], vec![0xC0, 0xAF]]).clone()))
        } else {
            None
        };
        let c = MalformedCase { source: mutated, profile: if rng.coin() { Profile::Debug } else { Profile::Release }, via_stdin: rng.below(4) == 0, raw_splice };
        (judge_malformed(&c), c, kind)
    });
    let mut rejected = 0u64;
    for (verdict, c, kind) in mal {
        ev.evaluations += 1;
        children += 1;
        match verdict {
            None => ev.count("malformed.still_valid_source_no_claim", 1),
            Some(v) => {
                rejected += 1;
                children += 1;
                ev.count(&format!("malformed.rejected.{}", kind), 1);
                ev.distinct.insert(digest_of(&("malformed", &c.source)));
                if let Some((o, d)) = v {
                    raw.push((c.to_json(), o.clone(), d, json!({"engine": ENGINE, "oracle": o, "mutation": kind})));
                }
            }
        }
    }
    ev.count("malformed.rejected_total", rejected);
    // ---- stress templates ------------------------------------------------------------------------
    let templates = stress_templates();
    let mut stress_cases: Vec<StressCase> = Vec::new();
    for (name, source) in &templates {
        for profile in [Profile::Debug, Profile::Release] {
            stress_cases.push(StressCase { name: name.clone(), source: source.clone(), profile, path: Path::Run, env: vec![] });
        }
        stress_cases.push(StressCase { name: name.clone(), source: source.clone(), profile: Profile::Debug, path: Path::Staged, env: vec![] });
        // the bounds are the property's, not the environment's: the Rust runtime's own stack knob, small, must not move them
        if !name.starts_with("scale_") && !name.contains("on_a_heap_of_300000") {
            stress_cases.push(StressCase { name: name.clone(), source: source.clone(), profile: Profile::Debug, path: Path::Run, env: vec![("RUST_MIN_STACK".into(), "262144".into())] });
            stress_cases.push(StressCase { name: name.clone(), source: source.clone(), profile: Profile::Release, path: Path::Run, env: vec![("RUST_MIN_STACK".into(), "65536".into())] });
        }
    }
    let n_graphs = if thorough { 60_000usize } else { 2000 };
    for j in 0..n_graphs {
        let mut rng = Rng::for_case(seed, "C10", "random-graph", j as u64);
        let source = random_graph_program(&mut rng);
        let profile = if rng.coin() { Profile::Debug } else { Profile::Release };
        let path = if rng.below(5) == 0 { Path::Staged } else { Path::Run };
        stress_cases.push(StressCase { name: "random_heap_graph".into(), source, profile, path, env: vec![] });
    }
    ev.count("random_heap_graph_programs", n_graphs as u64);
    let stress: Vec<Option<(String, String)>> = par_map(stress_cases.len(), |i| judge_stress(&stress_cases[i]));
    for (c, v) in stress_cases.iter().zip(stress.into_iter()) {
        ev.evaluations += 1;
        children += if c.path == Path::Run { 1 } else { 3 };
        ev.distinct.insert(digest_of(&("stress", &c.name, digest_bytes(c.source.as_bytes()), c.profile, c.path, &c.env)));
        ev.count("stress_template_runs", 1);
        if let Some((o, d)) = v {
            let family: String = c.name.trim_end_matches(|ch: char| ch.is_ascii_digit() || ch == '_').to_string();
            raw.push((c.to_json(), o.clone(), d, json!({"engine": ENGINE, "oracle": o, "template": c.name, "family": family, "profile": c.profile.name(), "path": if c.path == Path::Run { "run" } else { "staged" }})));
        }
    }
    ev.extra.insert("children_spawned".into(), json!(children));
    ev.extra.insert("bases".into(), json!(bases.len()));
    ev.extra.insert("stress_templates".into(), json!(templates.len()));

    // ---- minimise, confirm, report ----------------------------------------------------------------
    let mut seen: Vec<String> = Vec::new();
    let mut violations = Vec::new();
    for (replay_json, oracle, detail, sig) in raw {
        let kind = replay_json.get("kind").and_then(|k| k.as_str()).unwrap_or("").to_string();
        let key = match kind.as_str() {
            "injection" => format!("{}|{}", oracle, sig.get("class").and_then(|c| c.as_str()).unwrap_or("")),
            "stress" => format!("{}|{}|{}", oracle, sig.get("template").and_then(|c| c.as_str()).unwrap_or(""), sig.get("path").and_then(|c| c.as_str()).unwrap_or("")),
            _ => format!("{}|{}", oracle, sig.get("mutation").and_then(|c| c.as_str()).unwrap_or("")),
        };
        if seen.contains(&key) { continue; }
        seen.push(key);
        if kind == "stress" && replay_json.get("name").and_then(|n| n.as_str()) == Some("random_heap_graph") {
            if let Some(case) = StressCase::from_json(&replay_json) {
                let small = shrink_stress(&case);
                if let Some((o2, d2)) = judge_stress(&small) {
                    violations.push(Violation { property: "C10".into(), oracle: o2, detail: d2, signature: sig, replay: small.to_json() });
                    continue;
                }
            }
        }
        if kind == "injection" {
            if let Some(case) = Case::from_json(&replay_json) {
                let small = minimise(&case, &oracle);
                if let Ok(Some((o2, d2))) = replay_case(&small) {
                    let sig2 = json!({"engine": ENGINE, "oracle": o2, "class": small.class});
                    violations.push(Violation { property: "C10".into(), oracle: o2, detail: d2, signature: sig2, replay: small.to_json() });
                    continue;
                }
            }
        }
        violations.push(Violation { property: "C10".into(), oracle, detail, signature: sig, replay: replay_json });
    }
    violations
}

pub fn replay(v: &Value) -> Result<Option<(String, String)>, String> {
    match v.get("kind").and_then(|k| k.as_str()) {
        Some("injection") => replay_case(&Case::from_json(v).ok_or("malformed injection replay")?),
        Some("malformed_source") => Ok(judge_malformed(&MalformedCase::from_json(v).ok_or("malformed replay")?).flatten()),
        Some("stress") => Ok(judge_stress(&StressCase::from_json(v).ok_or("malformed stress replay")?)),
        _ => Err("unknown C10 replay kind".into()),
    }
}
