//! The simulated *foreign implementation* of the Feeny/FML bytecode format (DESIGN §3.1):
//! an encoder and a strict decoder written from the documented layout only. It shares no code
//! with FML's serializer. It is the reference model for bytes-on-disk and the "other party" that
//! exchanges files with the real FML node over the simulated disk. This component is a STUB NODE.
//!
//! Layout (all little-endian):
//!   u16 constant count, constants, u16 global count, u16 globals…, u16 entry
//!   constant: tag u8 — 0x00 int i32 | 0x01 null | 0x02 string u32 byte-length + UTF-8
//!             | 0x03 method u16 name, u8 arity, u16 locals, u32 instruction count, instructions
//!             | 0x04 slot u16 name | 0x05 class u16 count, u16 members… | 0x06 bool u8 (0|1)
//!   instruction: opcode u8 + operands —
//!     0x00 label u16 | 0x01 lit u16 | 0x02 print u16 u8 | 0x03 array | 0x04 object u16
//!     0x05 get-slot u16 | 0x06 set-slot u16 | 0x07 call-slot u16 u8 | 0x08 call u16 u8
//!     0x09 set-local u16 | 0x0A get-local u16 | 0x0B set-global u16 | 0x0C get-global u16
//!     0x0D branch u16 | 0x0E goto u16 | 0x0F return | 0x10 drop

use super::util::Rng;

#[derive(Clone, Debug, PartialEq, Eq, Hash)]
pub enum FOp {
    Label(u16),
    Literal(u16),
    Print(u16, u8),
    Array,
    Object(u16),
    GetField(u16),
    SetField(u16),
    CallMethod(u16, u8),
    CallFunction(u16, u8),
    SetLocal(u16),
    GetLocal(u16),
    SetGlobal(u16),
    GetGlobal(u16),
    Branch(u16),
    Jump(u16),
    Return,
    Drop,
}

#[derive(Clone, Debug, PartialEq, Eq, Hash)]
pub enum FConst {
    Int(i32),
    Null,
    Str(String),
    Method { name: u16, arity: u8, locals: u16, code: Vec<FOp> },
    Slot(u16),
    Class(Vec<u16>),
    Bool(bool),
}

#[derive(Clone, Debug, PartialEq, Eq, Hash)]
pub struct FModel {
    pub consts: Vec<FConst>,
    pub globals: Vec<u16>,
    pub entry: u16,
}

#[derive(Clone, Copy, Debug, PartialEq, Eq, Hash, PartialOrd, Ord)]
pub enum Field {
    PoolCount,
    Tag,
    IntPayload,
    BoolPayload,
    StrLen,
    StrPayload,
    U16Index,
    Arity,
    Locals,
    CodeLen,
    Opcode,
    OperandU16,
    OperandU8,
    ClassCount,
    ClassMember,
    GlobalCount,
    Global,
    Entry,
}

impl Field {
    pub fn name(&self) -> &'static str {
        match self {
            Field::PoolCount => "pool_count",
            Field::Tag => "tag",
            Field::IntPayload => "i32",
            Field::BoolPayload => "bool",
            Field::StrLen => "string_length",
            Field::StrPayload => "string_payload",
            Field::U16Index => "u16_index",
            Field::Arity => "arity_u8",
            Field::Locals => "locals_u16",
            Field::CodeLen => "code_length_u32",
            Field::Opcode => "opcode",
            Field::OperandU16 => "operand_u16",
            Field::OperandU8 => "operand_u8",
            Field::ClassCount => "class_count",
            Field::ClassMember => "class_member",
            Field::GlobalCount => "global_count",
            Field::Global => "global",
            Field::Entry => "entry",
        }
    }
}

// ------------------------------------------------------------------------------------------------
// Encoder

pub fn encode(m: &FModel) -> Vec<u8> {
    let mut out = Vec::new();
    out.extend_from_slice(&(m.consts.len() as u16).to_le_bytes());
    for c in &m.consts {
        match c {
            FConst::Int(n) => {
                out.push(0x00);
                out.extend_from_slice(&n.to_le_bytes());
            }
            FConst::Null => out.push(0x01),
            FConst::Str(s) => {
                out.push(0x02);
                out.extend_from_slice(&(s.as_bytes().len() as u32).to_le_bytes());
                out.extend_from_slice(s.as_bytes());
            }
            FConst::Method { name, arity, locals, code } => {
                out.push(0x03);
                out.extend_from_slice(&name.to_le_bytes());
                out.push(*arity);
                out.extend_from_slice(&locals.to_le_bytes());
                out.extend_from_slice(&(code.len() as u32).to_le_bytes());
                for op in code {
                    encode_op(op, &mut out);
                }
            }
            FConst::Slot(n) => {
                out.push(0x04);
                out.extend_from_slice(&n.to_le_bytes());
            }
            FConst::Class(members) => {
                out.push(0x05);
                out.extend_from_slice(&(members.len() as u16).to_le_bytes());
                for x in members {
                    out.extend_from_slice(&x.to_le_bytes());
                }
            }
            FConst::Bool(b) => {
                out.push(0x06);
                out.push(if *b { 1 } else { 0 });
            }
        }
    }
    out.extend_from_slice(&(m.globals.len() as u16).to_le_bytes());
    for g in &m.globals {
        out.extend_from_slice(&g.to_le_bytes());
    }
    out.extend_from_slice(&m.entry.to_le_bytes());
    out
}

fn encode_op(op: &FOp, out: &mut Vec<u8>) {
    let (code, a, b): (u8, Option<u16>, Option<u8>) = match op {
        FOp::Label(x) => (0x00, Some(*x), None),
        FOp::Literal(x) => (0x01, Some(*x), None),
        FOp::Print(x, n) => (0x02, Some(*x), Some(*n)),
        FOp::Array => (0x03, None, None),
        FOp::Object(x) => (0x04, Some(*x), None),
        FOp::GetField(x) => (0x05, Some(*x), None),
        FOp::SetField(x) => (0x06, Some(*x), None),
        FOp::CallMethod(x, n) => (0x07, Some(*x), Some(*n)),
        FOp::CallFunction(x, n) => (0x08, Some(*x), Some(*n)),
        FOp::SetLocal(x) => (0x09, Some(*x), None),
        FOp::GetLocal(x) => (0x0A, Some(*x), None),
        FOp::SetGlobal(x) => (0x0B, Some(*x), None),
        FOp::GetGlobal(x) => (0x0C, Some(*x), None),
        FOp::Branch(x) => (0x0D, Some(*x), None),
        FOp::Jump(x) => (0x0E, Some(*x), None),
        FOp::Return => (0x0F, None, None),
        FOp::Drop => (0x10, None, None),
    };
    out.push(code);
    if let Some(a) = a {
        out.extend_from_slice(&a.to_le_bytes());
    }
    if let Some(b) = b {
        out.push(b);
    }
}

// ------------------------------------------------------------------------------------------------
// Strict decoder with per-byte field annotation

struct Cur<'a> {
    data: &'a [u8],
    pos: usize,
    ann: Vec<Field>,
}

impl<'a> Cur<'a> {
    fn take(&mut self, n: usize, f: Field) -> Result<&'a [u8], String> {
        if self.pos + n > self.data.len() {
            return Err(format!("truncated at offset {} reading {} byte(s) of {}", self.pos, n, f.name()));
        }
        let s = &self.data[self.pos..self.pos + n];
        self.pos += n;
        for _ in 0..n {
            self.ann.push(f);
        }
        Ok(s)
    }
    fn u8(&mut self, f: Field) -> Result<u8, String> {
        Ok(self.take(1, f)?[0])
    }
    fn u16(&mut self, f: Field) -> Result<u16, String> {
        let s = self.take(2, f)?;
        Ok(u16::from_le_bytes([s[0], s[1]]))
    }
    fn u32(&mut self, f: Field) -> Result<u32, String> {
        let s = self.take(4, f)?;
        Ok(u32::from_le_bytes([s[0], s[1], s[2], s[3]]))
    }
}

pub fn decode(data: &[u8]) -> Result<(FModel, Vec<Field>), String> {
    let mut c = Cur { data, pos: 0, ann: Vec::with_capacity(data.len()) };
    let n = c.u16(Field::PoolCount)? as usize;
    let mut consts = Vec::with_capacity(n);
    for i in 0..n {
        let at = c.pos;
        let tag = c.u8(Field::Tag)?;
        let k = match tag {
            0x00 => {
                let s = c.take(4, Field::IntPayload)?;
                FConst::Int(i32::from_le_bytes([s[0], s[1], s[2], s[3]]))
            }
            0x01 => FConst::Null,
            0x02 => {
                let len = c.u32(Field::StrLen)? as usize;
                let s = c.take(len, Field::StrPayload)?;
                match std::str::from_utf8(s) {
                    Ok(t) => FConst::Str(t.to_string()),
                    Err(e) => return Err(format!("constant #{} at offset {}: string is not UTF-8: {}", i, at, e)),
                }
            }
            0x03 => {
                let name = c.u16(Field::U16Index)?;
                let arity = c.u8(Field::Arity)?;
                let locals = c.u16(Field::Locals)?;
                let len = c.u32(Field::CodeLen)? as usize;
                let mut code = Vec::with_capacity(len.min(1 << 20));
                for _ in 0..len {
                    code.push(decode_op(&mut c)?);
                }
                FConst::Method { name, arity, locals, code }
            }
            0x04 => FConst::Slot(c.u16(Field::U16Index)?),
            0x05 => {
                let m = c.u16(Field::ClassCount)? as usize;
                let mut v = Vec::with_capacity(m);
                for _ in 0..m {
                    v.push(c.u16(Field::ClassMember)?);
                }
                FConst::Class(v)
            }
            0x06 => match c.u8(Field::BoolPayload)? {
                0 => FConst::Bool(false),
                1 => FConst::Bool(true),
                x => return Err(format!("constant #{} at offset {}: boolean payload {}", i, at, x)),
            },
            t => return Err(format!("constant #{} at offset {}: unknown tag 0x{:02x}", i, at, t)),
        };
        consts.push(k);
    }
    let g = c.u16(Field::GlobalCount)? as usize;
    let mut globals = Vec::with_capacity(g);
    for _ in 0..g {
        globals.push(c.u16(Field::Global)?);
    }
    let entry = c.u16(Field::Entry)?;
    if c.pos != data.len() {
        return Err(format!("{} trailing byte(s) after the entry point (offset {})", data.len() - c.pos, c.pos));
    }
    Ok((FModel { consts, globals, entry }, c.ann))
}

fn decode_op(c: &mut Cur) -> Result<FOp, String> {
    let at = c.pos;
    let code = c.u8(Field::Opcode)?;
    Ok(match code {
        0x00 => FOp::Label(c.u16(Field::OperandU16)?),
        0x01 => FOp::Literal(c.u16(Field::OperandU16)?),
        0x02 => {
            let a = c.u16(Field::OperandU16)?;
            FOp::Print(a, c.u8(Field::OperandU8)?)
        }
        0x03 => FOp::Array,
        0x04 => FOp::Object(c.u16(Field::OperandU16)?),
        0x05 => FOp::GetField(c.u16(Field::OperandU16)?),
        0x06 => FOp::SetField(c.u16(Field::OperandU16)?),
        0x07 => {
            let a = c.u16(Field::OperandU16)?;
            FOp::CallMethod(a, c.u8(Field::OperandU8)?)
        }
        0x08 => {
            let a = c.u16(Field::OperandU16)?;
            FOp::CallFunction(a, c.u8(Field::OperandU8)?)
        }
        0x09 => FOp::SetLocal(c.u16(Field::OperandU16)?),
        0x0A => FOp::GetLocal(c.u16(Field::OperandU16)?),
        0x0B => FOp::SetGlobal(c.u16(Field::OperandU16)?),
        0x0C => FOp::GetGlobal(c.u16(Field::OperandU16)?),
        0x0D => FOp::Branch(c.u16(Field::OperandU16)?),
        0x0E => FOp::Jump(c.u16(Field::OperandU16)?),
        0x0F => FOp::Return,
        0x10 => FOp::Drop,
        x => return Err(format!("unknown opcode 0x{:02x} at offset {}", x, at)),
    })
}

// ------------------------------------------------------------------------------------------------
// W2: seeded generator of structurally valid models ("what a loader must accept").

const STR_POOL: &[&str] = &[
    "", "a", "λ:", "get", "set", "+", "==", "if:consequent:0", "loop:body:12", "x y", "~\\n", "日本語", "😀", "é", "\u{0}", "\n", "\r\n",
    "\"", "\\", " ", "ß", "\u{feff}", "\u{2028}", "name", "::size_0", "object(..=1, a=2)", "[1, 2]", "\u{10ffff}", "ab\u{0301}", "\t",
];

pub struct ModelCfg {
    pub max_consts: usize,
    pub max_code: usize,
    pub long_string: Option<usize>,
    pub many_methods: bool,
}

pub fn gen_model(rng: &mut Rng, cfg: &ModelCfg) -> FModel {
    let n = match rng.below(10) {
        0 => rng.usize_below(3),
        1 => 250 + rng.usize_below(20), // around the u8 boundary
        _ => 1 + rng.usize_below(cfg.max_consts.max(2)),
    }
    .min(cfg.max_consts.max(1));
    let mut consts: Vec<FConst> = Vec::with_capacity(n);
    // first pass: everything except label-bearing code needs no context; strings first so that
    // labels can name them
    let mut string_indices: Vec<u16> = Vec::new();
    for i in 0..n {
        let c = match rng.below(12) {
            0 | 1 => {
                let v = match rng.below(4) {
                    0 => *rng.pick(&[0i32, 1, -1, i32::MAX, i32::MIN, 255, 256, 65535, 65536, -256, 0x01020304, -0x01020304]),
                    1 => rng.next_u64() as i32,
                    _ => rng.range(-100, 100) as i32,
                };
                FConst::Int(v)
            }
            2 => FConst::Null,
            3 => FConst::Bool(rng.coin()),
            4..=6 => {
                let s = if let (Some(max), true) = (cfg.long_string, rng.below(8) == 0) {
                    let len = match rng.below(4) {
                        0 => 255 + rng.usize_below(3),
                        1 => 65535 + rng.usize_below(3),
                        2 => 1020 + rng.usize_below(10),
                        _ => 1 + rng.usize_below(max),
                    }
                    .min(max);
                    let unit = *rng.pick(&["a", "é", "中", "😀", "x\n"]);
                    let mut s = String::new();
                    while s.len() + unit.len() <= len {
                        s.push_str(unit);
                    }
                    s
                } else if rng.below(3) == 0 {
                    let k = 1 + rng.usize_below(4);
                    (0..k).map(|_| *rng.pick(STR_POOL)).collect::<Vec<_>>().concat()
                } else {
                    (*rng.pick(STR_POOL)).to_string()
                };
                string_indices.push(i as u16);
                FConst::Str(s)
            }
            7 => FConst::Slot(rand_index(rng, n)),
            8 => {
                let m = match rng.below(6) { 0 => 0, 1 => 1, 5 => 250 + rng.usize_below(20), _ => rng.usize_below(6) };
                FConst::Class((0..m).map(|_| rand_index(rng, n)).collect())
            }
            _ => FConst::Method { name: rand_index(rng, n), arity: rand_u8(rng), locals: rand_u16(rng), code: Vec::new() },
        };
        consts.push(c);
    }
    if cfg.many_methods {
        // make most non-string constants methods
        for c in consts.iter_mut() {
            if !matches!(c, FConst::Str(_)) && rng.below(3) != 0 {
                *c = FConst::Method { name: rand_index(rng, n), arity: rand_u8(rng), locals: rand_u16(rng), code: Vec::new() };
            }
        }
    }
    // second pass: fill method code
    let total = consts.len();
    let mut huge_used = false;
    for c in consts.iter_mut() {
        if let FConst::Method { code, .. } = c {
            let len = match rng.below(10) {
                0 => 0,
                1 => 1,
                2 => 255 + rng.usize_below(3),
                // at most one method per model crosses the u16 boundary of the instruction count (cost control)
                3 if cfg.max_code > 65536 && !huge_used => { huge_used = true; 65535 + rng.usize_below(3) }
                _ => rng.usize_below(cfg.max_code.min(40).max(1)),
            }
            .min(cfg.max_code);
            for _ in 0..len {
                code.push(rand_op(rng, total, &string_indices));
            }
        }
    }
    let g = match rng.below(6) { 0 => 0, 5 => 250 + rng.usize_below(20), _ => rng.usize_below(8) };
    let globals = (0..g).map(|_| rand_index(rng, n)).collect();
    let entry = rand_index(rng, n);
    FModel { consts, globals, entry }
}

fn rand_index(rng: &mut Rng, n: usize) -> u16 {
    match rng.below(10) {
        0 => *rng.pick(&[0u16, 1, 255, 256, 257, 0x0102, 0xfffe, 0xffff, 0x8000, 0x00ff, 0xff00]),
        _ => rng.below(n.max(1) as u64) as u16,
    }
}
fn rand_u8(rng: &mut Rng) -> u8 {
    match rng.below(4) { 0 => *rng.pick(&[0u8, 1, 127, 128, 255]), _ => rng.below(6) as u8 }
}
fn rand_u16(rng: &mut Rng) -> u16 {
    match rng.below(4) { 0 => *rng.pick(&[0u16, 1, 255, 256, 0x0102, 0xffff, 0x8000]), _ => rng.below(10) as u16 }
}

fn rand_op(rng: &mut Rng, n: usize, strings: &[u16]) -> FOp {
    match rng.below(17) {
        0 => {
            // labels must name string constants, or the loader has nothing to register
            if strings.is_empty() { FOp::Drop } else { FOp::Label(*rng.pick(strings)) }
        }
        1 => FOp::Literal(rand_index(rng, n)),
        2 => FOp::Print(rand_index(rng, n), rand_u8(rng)),
        3 => FOp::Array,
        4 => FOp::Object(rand_index(rng, n)),
        5 => FOp::GetField(rand_index(rng, n)),
        6 => FOp::SetField(rand_index(rng, n)),
        7 => FOp::CallMethod(rand_index(rng, n), rand_u8(rng)),
        8 => FOp::CallFunction(rand_index(rng, n), rand_u8(rng)),
        9 => FOp::SetLocal(rand_u16(rng)),
        10 => FOp::GetLocal(rand_u16(rng)),
        11 => FOp::SetGlobal(rand_index(rng, n)),
        12 => FOp::GetGlobal(rand_index(rng, n)),
        13 => FOp::Branch(rand_index(rng, n)),
        14 => FOp::Jump(rand_index(rng, n)),
        15 => FOp::Return,
        _ => FOp::Drop,
    }
}

// ------------------------------------------------------------------------------------------------
// A foreign writer that does not intern strings: every place where the format refers to a string *by
// index* but means it *by name* (labels and jumps, global/function/method/field names, slot and method
// name fields, print formats) may point at its own copy of the string, appended to the pool. The image
// denotes the same program; only an implementation that confuses "same index" with "same name" differs.

/// A minimal runnable program padded with distinct integer constants to exactly `n` pool entries.
pub fn boundary_pool_model(n: usize) -> FModel {
    let mut consts: Vec<FConst> = vec![FConst::Str("λ:".into()), FConst::Method { name: 0, arity: 0, locals: 0, code: vec![FOp::Literal(2), FOp::Return] }];
    while consts.len() < n {
        let i = consts.len() as i32;
        consts.push(FConst::Int(i));
    }
    FModel { consts, globals: vec![], entry: 1 }
}

pub fn without_interning(m: &FModel, seed: u64) -> FModel {
    let mut rng = Rng::from_u64(seed ^ 0x6e6f_696e_7465_726e);
    let mut out = m.clone();
    let is_str = |consts: &Vec<FConst>, i: u16| matches!(consts.get(i as usize), Some(FConst::Str(_)));
    let mut dup = |consts: &mut Vec<FConst>, i: u16, rng: &mut Rng| -> u16 {
        if consts.len() >= 65_000 || rng.below(3) != 0 { return i; }
        if let Some(FConst::Str(s)) = consts.get(i as usize).cloned() {
            consts.push(FConst::Str(s));
            (consts.len() - 1) as u16
        } else {
            i
        }
    };
    let n = out.consts.len();
    for k in 0..n {
        let mut c = out.consts[k].clone();
        match &mut c {
            FConst::Slot(name) => { if is_str(&out.consts, *name) { *name = dup(&mut out.consts, *name, &mut rng); } }
            FConst::Method { name, code, .. } => {
                if is_str(&out.consts, *name) { *name = dup(&mut out.consts, *name, &mut rng); }
                for op in code.iter_mut() {
                    match op {
                        FOp::Label(x) | FOp::Jump(x) | FOp::Branch(x) | FOp::GetGlobal(x) | FOp::SetGlobal(x) | FOp::GetField(x) | FOp::SetField(x)
                        | FOp::CallFunction(x, _) | FOp::CallMethod(x, _) | FOp::Print(x, _) => {
                            if is_str(&out.consts, *x) { *x = dup(&mut out.consts, *x, &mut rng); }
                        }
                        _ => {}
                    }
                }
            }
            _ => {}
        }
        out.consts[k] = c;
    }
    out
}

// ------------------------------------------------------------------------------------------------
// Bridge to the real FML `Program` through its public accessors and constructors only
// (no serializer code involved).

use crate::bytecode::bytecode::OpCode;
use crate::bytecode::program::{
    AddressRange, Arity, Address, Code, ConstantPool, ConstantPoolIndex, Entry, Globals, LocalFrameIndex, Program, ProgramObject, Size,
};

pub fn fop_of(op: &OpCode) -> FOp {
    match op {
        OpCode::Label { name } => FOp::Label(name.value()),
        OpCode::Literal { index } => FOp::Literal(index.value()),
        OpCode::Print { format, arguments } => FOp::Print(format.value(), arguments.value()),
        OpCode::Array => FOp::Array,
        OpCode::Object { class } => FOp::Object(class.value()),
        OpCode::GetField { name } => FOp::GetField(name.value()),
        OpCode::SetField { name } => FOp::SetField(name.value()),
        OpCode::CallMethod { name, arguments } => FOp::CallMethod(name.value(), arguments.value()),
        OpCode::CallFunction { name, arguments } => FOp::CallFunction(name.value(), arguments.value()),
        OpCode::SetLocal { index } => FOp::SetLocal(index.value()),
        OpCode::GetLocal { index } => FOp::GetLocal(index.value()),
        OpCode::SetGlobal { name } => FOp::SetGlobal(name.value()),
        OpCode::GetGlobal { name } => FOp::GetGlobal(name.value()),
        OpCode::Branch { label } => FOp::Branch(label.value()),
        OpCode::Jump { label } => FOp::Jump(label.value()),
        OpCode::Return => FOp::Return,
        OpCode::Drop => FOp::Drop,
    }
}

pub fn opcode_of(op: &FOp) -> OpCode {
    let cpi = |x: &u16| ConstantPoolIndex::new(*x);
    match op {
        FOp::Label(x) => OpCode::Label { name: cpi(x) },
        FOp::Literal(x) => OpCode::Literal { index: cpi(x) },
        FOp::Print(x, n) => OpCode::Print { format: cpi(x), arguments: Arity::new(*n) },
        FOp::Array => OpCode::Array,
        FOp::Object(x) => OpCode::Object { class: cpi(x) },
        FOp::GetField(x) => OpCode::GetField { name: cpi(x) },
        FOp::SetField(x) => OpCode::SetField { name: cpi(x) },
        FOp::CallMethod(x, n) => OpCode::CallMethod { name: cpi(x), arguments: Arity::new(*n) },
        FOp::CallFunction(x, n) => OpCode::CallFunction { name: cpi(x), arguments: Arity::new(*n) },
        FOp::SetLocal(x) => OpCode::SetLocal { index: LocalFrameIndex::new(*x) },
        FOp::GetLocal(x) => OpCode::GetLocal { index: LocalFrameIndex::new(*x) },
        FOp::SetGlobal(x) => OpCode::SetGlobal { name: cpi(x) },
        FOp::GetGlobal(x) => OpCode::GetGlobal { name: cpi(x) },
        FOp::Branch(x) => OpCode::Branch { label: cpi(x) },
        FOp::Jump(x) => OpCode::Jump { label: cpi(x) },
        FOp::Return => OpCode::Return,
        FOp::Drop => OpCode::Drop,
    }
}

/// The format-level view of a real `Program`, deliberately blind to AddressRange start addresses.
pub fn model_of(p: &Program) -> Result<FModel, String> {
    let mut consts = Vec::new();
    for c in p.constant_pool.iter() {
        consts.push(match c {
            ProgramObject::Integer(n) => FConst::Int(*n),
            ProgramObject::Boolean(b) => FConst::Bool(*b),
            ProgramObject::Null => FConst::Null,
            ProgramObject::String(s) => FConst::Str(s.clone()),
            ProgramObject::Slot { name } => FConst::Slot(name.value()),
            ProgramObject::Class(v) => FConst::Class(v.iter().map(|i| i.value()).collect()),
            ProgramObject::Method { name, parameters, locals, code } => {
                let ops = p.code.materialize(code).map_err(|e| format!("{:#}", e))?;
                FConst::Method {
                    name: name.value(),
                    arity: parameters.value(),
                    locals: locals.value(),
                    code: ops.into_iter().map(fop_of).collect(),
                }
            }
        });
    }
    let globals = p.globals.iter().map(|g| g.value()).collect();
    let entry = p.entry.get().map_err(|e| format!("{:#}", e))?.value();
    Ok(FModel { consts, globals, entry })
}

/// Builds a real `Program` directly (no bytes involved), the way a test or another front end would.
pub fn build_program(m: &FModel) -> Result<Program, String> {
    let mut code: Vec<OpCode> = Vec::new();
    let mut objects: Vec<ProgramObject> = Vec::new();
    for c in &m.consts {
        objects.push(match c {
            FConst::Int(n) => ProgramObject::Integer(*n),
            FConst::Null => ProgramObject::Null,
            FConst::Bool(b) => ProgramObject::Boolean(*b),
            FConst::Str(s) => ProgramObject::String(s.clone()),
            FConst::Slot(n) => ProgramObject::Slot { name: ConstantPoolIndex::new(*n) },
            FConst::Class(v) => ProgramObject::Class(v.iter().map(|x| ConstantPoolIndex::new(*x)).collect()),
            FConst::Method { name, arity, locals, code: ops } => {
                let start = code.len();
                code.extend(ops.iter().map(opcode_of));
                ProgramObject::Method {
                    name: ConstantPoolIndex::new(*name),
                    parameters: Arity::new(*arity),
                    locals: Size::new(*locals),
                    code: AddressRange::new(Address::from_usize(start), ops.len()),
                }
            }
        });
    }
    let globals = Globals::from(m.globals.iter().map(|g| ConstantPoolIndex::new(*g)).collect::<Vec<_>>());
    let entry = Entry::from(m.entry);
    let r = super::util::catch(|| Program::from(Code::from(code), ConstantPool::from(objects), globals, entry).map_err(|e| format!("{:#}", e)));
    match r {
        Ok(r) => r,
        Err(p) => Err(format!("panic: {}", p)),
    }
}
