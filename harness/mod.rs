//! fmlsim — deterministic simulation with fault injection for kondziu/FML.
//! Compiled into the `fml` binary only under `--cfg kondziu_fml_verif` (see /verif/DESIGN.md).
//! `fml verif …` enters here; any other argv runs the unmodified CLI.

#![allow(dead_code)]

pub mod util;
pub mod simio;
pub mod gen;
pub mod vm;
pub mod foreign;
pub mod work;
pub mod stream;
pub mod report;
pub mod proc;
pub mod c08;
pub mod c08b;
pub mod cycle;
pub mod cycleb;
pub mod c11;
pub mod c10;
pub mod c16;
pub mod c06;
pub mod selftest;

use report::{Evidence, Violation};

fn env_seed() -> u64 {
    std::env::var("VERIF_SEED").ok().and_then(|s| s.trim().parse::<u64>().ok()).unwrap_or(1)
}

fn arg_value(args: &[String], key: &str) -> Option<String> {
    args.iter().position(|a| a == key).and_then(|i| args.get(i + 1).cloned())
}

pub fn intercept() -> bool {
    let args: Vec<String> = std::env::args().collect();
    if args.get(1).map(|s| s.as_str()) != Some("verif") {
        return false;
    }
    util::install_panic_hook();
    proc::init_process_limits();
    let code = match args.get(2).map(|s| s.as_str()) {
        Some("check") => cmd_check(&args[3..]),
        Some("replay") => cmd_replay(&args[3..]),
        Some("gen") => cmd_gen(&args[3..]),
        Some("bench-spawn") => cmd_bench_spawn(&args[3..]),
        Some("leaktest") => {
            let src = "let zzbig = array(300000, 0);\nlet o = object begin let a = 1; function m() -> 1; end;\nprint(\"~\\n\", o)\n";
            let rss = || std::fs::read_to_string("/proc/self/statm").ok().and_then(|s| s.split_whitespace().nth(1).and_then(|x| x.parse::<u64>().ok())).unwrap_or(0) * 4;
            let which = args.get(3).map(|s| s.as_str()).unwrap_or("run").to_string();
            println!("start rss={} KB", rss());
            for round in 0..5 {
                for _ in 0..2000 {
                    match which.as_str() {
                        "compile" => { let _ = vm::compile_source(src); }
                        "parsenew" => { let _ = crate::fml::TopLevelParser::new().parse(src); }
                        "newonly" => { let _ = crate::fml::TopLevelParser::new(); }
                        "gen" => { let mut rng = util::Rng::from_u64(round); let cfg = gen::GenCfg::swarm(&mut rng); let _ = gen::generate(&mut rng, &cfg); }
                        "crumb" => { util::breadcrumb("C16", serde_json::json!({"kind": "x", "program": src})); }
                        "scratch" => { let d = proc::scratch_dir(); let _ = std::fs::remove_dir_all(&d); }
                        _ => { let p = vm::compile_source(src).unwrap(); let _ = vm::run(&p, &vm::RunCfg::default()); }
                    }
                }
                println!("{} round {} rss={} KB", which, round, rss());
            }
            0
        }
        Some("selftest-digest") => {
            need_shim();
            let n = arg_value(&args[3..], "--n").and_then(|s| s.parse().ok()).unwrap_or(2000usize);
            for l in selftest::digests(env_seed(), n) { println!("{}", l); }
            0
        }
        _ => {
            eprintln!("usage: fml verif check <ID> --tier quick|thorough | replay <file> | gen --case N");
            2
        }
    };
    proc::cleanup_scratch_root();
    std::process::exit(code);
}

fn need_shim() {
    if let Err(e) = proc::shim_effective() {
        eprintln!("HARNESS-ERROR {}", e);
        proc::cleanup_scratch_root();
        std::process::exit(2);
    }
}

fn cmd_check(args: &[String]) -> i32 {
    let id = match args.first() {
        Some(s) => s.clone(),
        None => {
            eprintln!("HARNESS-ERROR missing property id");
            return 2;
        }
    };
    let tier = arg_value(args, "--tier").or_else(|| std::env::var("VERIF_TIER").ok()).unwrap_or_else(|| "quick".into());
    let tier = if tier == "thorough" { "thorough" } else { "quick" };
    let seed = arg_value(args, "--seed").and_then(|s| s.parse().ok()).unwrap_or_else(env_seed);
    println!("fmlsim: property={} tier={} VERIF_SEED={} workers={}", id, tier, seed, util::workers());
    match id.as_str() {
        "C08" => check_c08(seed, tier),
        "C11" => check_c11(seed, tier),
        "C10" => check_c10(seed, tier),
        "C16" => check_c16(seed, tier),
        "C06" => check_c06(seed, tier),
        "C03" => check_cycle(cycle::Which::C03, seed, tier),
        "C04" => check_cycle(cycle::Which::C04, seed, tier),
        other => {
            eprintln!("HARNESS-ERROR no check for property {}", other);
            2
        }
    }
}

fn check_c08(seed: u64, tier: &str) -> i32 {
    let mut ev = Evidence::new(
        "C08", tier, seed, "fault_enumeration",
        "layer A: (program, sink stack, teardown, fault plan) with the real serializer writing into a simulated fd; \
         per program and stack every per-call acceptance limit of the set and one fault (short 1 / short len-1 / EINTR / hard / Ok(0) / \
         one-off EAGAIN-ETIMEDOUT-EIO) at each individual write call in turn are enumerated, one-off errors also inside a request that is being \
         accepted piecewise, plus seeded random plans. A case is non-trivial only if at least one \
         injected fault actually fired inside the serialize/flush operation; distinct = distinct (image digest, stack, teardown, plan).",
    );
    ev.assumptions = vec![
        "the simulated fd honours the std::io::Write contract (1 <= n <= len on success; Interrupted takes nothing; hard errors are sticky; one-off errors take nothing and the next call is served)".into(),
        "std BufWriter/LineWriter are the real ones; close() errors are out of scope".into(),
        "reference bytes come from the same build's serializer writing into a Vec (what the bytes are is C04's business)".into(),
    ];
    let mut violations: Vec<Violation> = c08::run_layer_a(seed, tier, &mut ev);
    need_shim();
    violations.extend(c08b::run_layer_b(seed, tier, &mut ev));
    ev.extra.insert("components".into(), serde_json::json!({
        "real": ["fml parser", "fml compiler", "Program::serialize and all primitive writers", "std::io::BufWriter", "std::io::LineWriter"],
        "real_layer_b": ["the unmodified `fml compile` CLI path as a child process (debug and release builds)", "kernel files, pipes and /dev/full"],
        "stub": ["SimFd (simulated file descriptor driven by an explicit fault plan)", "foreign decoder (coverage annotation only)",
                 "libfmlsim.so: write()/read() outcomes, getrandom(), clock at the libc boundary of the child"],
    }));
    report::finish(ev, violations)
}

fn check_cycle(which: cycle::Which, seed: u64, tier: &str) -> i32 {
    let rule = match which {
        cycle::Which::C03 =>
            "save/load cycles: a Program (compiler output from generated and corpus sources, corpus images, directly built structurally valid models)              is serialized by the real serializer through a sink stack under a transient-only write plan onto the simulated disk, loaded by the real              loader through a simulated source under a chunking/EINTR read plan (raw and through BufReader), saved again and, where it is a program,              executed before and after; plus sticky / one-off hard read errors at seeded read calls (a failed load is allowed, a successful one must yield the saved program). Non-trivial = a write fault, a read cut/EINTR or a read error actually fired during the cycle; distinct = distinct              (image digest, writer, write stack, write plan, read stack, read plan).",
        cycle::Which::C04 =>
            "exchange cycles with a simulated foreign implementation of the documented layout (independent encoder + strict decoder): (a) every image              FML emits is decoded by the foreign node and must denote the same program with no trailing bytes; (b) every image the foreign node writes              is loaded by FML under a chunking/EINTR read plan, must denote the same program and re-save byte-identically; images whose constant count makes them start like something else (#!, BOM, gzip/zip/ELF, line ends) are executed through the CLI. Non-trivial = a write fault, a read cut/EINTR or a read error actually fired during the cycle; distinct = distinct (image digest, writer, stacks, plans).",
    };
    let mut ev = Evidence::new(which.id(), tier, seed, "exploration", rule);
    ev.assumptions = vec![
        "the foreign codec in harness/foreign.rs is a faithful reading of the documented layout (it shares no code with FML's serializer)".into(),
        "behaviour on corrupted or truncated images is not decided (no property states it); under a read *error* only the narrow claim is made: fail, or load the saved program".into(),
        "the format-level model ignores code start addresses, which the property does not promise".into(),
    ];
    let mut violations = cycle::run_layer_a(which, seed, tier, &mut ev);
    need_shim();
    violations.extend(cycleb::run_layer_b(which.id(), seed, tier, &mut ev));
    ev.extra.insert("components".into(), serde_json::json!({
        "real": ["fml parser", "fml compiler", "Program::serialize", "Program::from_bytes", "Program::from (direct construction)", "per-opcode VM via step_with", "std BufWriter/LineWriter/BufReader", "Box<dyn Write> over the std adaptors"],
        "real_layer_b": ["the unmodified fml CLI (compile, run, execute, disassemble) as child processes, debug and release"],
        "stub": ["SimFd / SimSource (simulated disk endpoints under explicit fault plans)", "foreign encoder/decoder (the other party)",
                 "libfmlsim.so: read() outcomes on the image fd / stdin of the loading process"],
    }));
    report::finish(ev, violations)
}

fn check_c11(seed: u64, tier: &str) -> i32 {
    let mut ev = Evidence::new(
        "C11", tier, seed, "exploration",
        "per source program one baseline observation (parse -> compile -> run + execute with --heap-log, each a real child process under the shim) and          N observations under entropy tuples drawn from the case seed: hash seed (getrandom), scripted wall clock (steady, stalled, backward/forward jumps,          far future), heap layout (seeded junk allocations), environment block, ASLR on/off, input via file or stdin, argv0, cwd depth, stale files at output paths, the delivery schedule of every stage's bytes (io_plan), debug/release build;          plus three in-process compilations in fresh threads. Every observation differs from the baseline in at least one declared entropy source, so every          evaluation is non-trivial; distinct = distinct (source digest, tuple).",
    );
    ev.assumptions = vec![
        "entropy reaches the process only through getrandom, the wall clock, the address-space layout, the environment, argv and cwd (FML has no threads, signals or network)".into(),
        "stderr is compared only as empty/non-empty (it carries a thread id)".into(),
        "ASLR-on tuples are an uncontrolled witness: a difference found only there would still replay with high probability, not certainty".into(),
    ];
    need_shim();
    let violations = c11::run(seed, tier, &mut ev);
    ev.extra.insert("components".into(), serde_json::json!({
        "real": ["the unmodified fml CLI (parse, compile, run, execute) as child processes, debug and release builds", "kernel files"],
        "stub": ["libfmlsim.so: getrandom (hash seed), clock_gettime (scripted clock), junk allocations", "personality(ADDR_NO_RANDOMIZE), scrubbed environment"],
    }));
    report::finish(ev, violations)
}

fn check_c10(seed: u64, tier: &str) -> i32 {
    let mut ev = Evidence::new(
        "C10", tier, seed, "exploration",
        "guest-fault injection: a generated base program S1;M1;..;Sn;Mn (Mi = unique marker print) whose fault-free run under the real binary exits 0 with empty          stderr; one faulting statement of a class (45 classes of undefined operation) wrapped at a placement (top level, after a partial line, loop iteration,          called function, inherited method, argument list, print arguments, compound array initialiser, nested blocks, conditional branch) inserted at every          statement position k; run through `fml run` or parse|compile|execute, debug or release, stdout to pipe or file, with short-write/EINTR plans on fd 1.          Plus token-mutated/truncated sources (claim only when `fml parse` rejects) and stress templates inside the stated bounds (cycles, 10^3 chains, 10^5 call          depth, nesting 200). Every evaluation injects a fault or a malformed/stress input, so all are non-trivial; distinct = distinct (base digest, position, class,          placement, path, profile, channel, plan) / distinct rejected source / distinct (template, profile, path).",
    );
    ev.assumptions = vec![
        "the expected stdout prefix comes from the fault-free run of the same base under the same binary (oracle by construction, no reference interpreter)".into(),
        "a failing print may have emitted any prefix of its own format before detecting the argument mismatch; every other fault class prints nothing itself".into(),
        "children run with an 8 MiB stack and a 20 s CPU watchdog; a watchdog kill is never a verdict".into(),
    ];
    need_shim();
    let violations = c10::run(seed, tier, &mut ev);
    ev.extra.insert("components".into(), serde_json::json!({
        "real": ["the unmodified fml CLI (run, parse, compile, execute) as child processes, debug and release builds", "kernel pipes and files"],
        "stub": ["libfmlsim.so: write() outcomes on fd 1, getrandom", "personality(ADDR_NO_RANDOMIZE), scrubbed environment"],
    }));
    report::finish(ev, violations)
}

fn check_c16(seed: u64, tier: &str) -> i32 {
    let mut ev = Evidence::new(
        "C16", tier, seed, "exploration",
        "(A) allocation histories: generated allocating programs (and the corpus) run on the real VM with the real heap writing a real log file, for heap sizes          {0,1,2,16,1024,65536,1048576} MB, against the same run without flags; the log is parsed strictly and compared record by record with the enumerated heap          (append-only, index order = creation order), with the allocation count the generator knows by construction, and with a batch-wide shape->increment table.          (B) `fml run|execute --heap-log PATH [--heap-size N]` as child processes under scripted clocks (steady, stalled, backward/forward jumps, far future, near epoch),          short writes/EINTR on the log fd, hard errors on the guest's stdout (the log must hold every allocation made before the last byte that arrived), nested/absent log directories, and programs that fail part-way, against the same command without flags and the in-process history.          Non-trivial = the program created at least one array/object (A) / the flagged child ran to its end state (B); distinct = distinct (source digest, configuration).",
    );
    ev.assumptions = vec![
        "the heap is append-only, so enumerating indices 0.. gives the creation history".into(),
        "the shape key (array length; object parent kind, field names, method name/arity/locals/length) is at least as fine as anything an implementation may size by".into(),
        "a clock before 1970 and I/O errors on the log file are outside the property (the code unwraps them)".into(),
    ];
    need_shim();
    let violations = c16::run(seed, tier, &mut ev);
    ev.extra.insert("components".into(), serde_json::json!({
        "real": ["fml parser/compiler", "per-opcode VM via step_with", "Heap (allocate, set_log, set_size) writing a real file", "the unmodified fml CLI run/execute as child processes"],
        "stub": ["libfmlsim.so: scripted clock_gettime, write() outcomes on the log fd, getrandom"],
    }));
    report::finish(ev, violations)
}

fn check_c06(seed: u64, tier: &str) -> i32 {
    let mut ev = Evidence::new(
        "C06", tier, seed, "exploration",
        "the pipeline as separate child processes connected by channels the simulator owns: per program (generated with hostile strings/identifiers, nesting templates          of depth 1..300, the in-repo corpus) one `fml run` per profile and N staged pipelines under configuration tuples {json,lisp,yaml} x {explicit --format incl. aliases          and case variants, format inferred from -o extension / input extension} x parse input {file, stdin} x parse output {-o FILE, -o DIR with derived name, stdout>file,          stdout|pipe} x compile input {file, stdin + --input-format} x compile output {-o FILE, -o DIR, stdout>file, stdout|pipe} x execute input {file, stdin} x {debug, release},          plus the wrapper script; each stage under a seeded transient plan (per-call limits, short reads/writes, EINTR on stdin/stdout/file fds); plus hard-fault pipelines: one stage gets a hard or one-off I/O error placed inside its own I/O (from the fault-free stage's call counts, biased to the last calls) under the narrow oracle 'may fail; exit 0 only with exactly the right output'. In-process: each format          reloads to the identical AST. Every staged pipeline is a distinct configuration of channels and faults, so all are non-trivial; distinct = distinct (source digest, tuple).",
    );
    ev.assumptions = vec![
        "stages run one after the other with captured buffers: each stage reads its whole input before producing output, so this explores the behaviours of concurrent processes".into(),
        "the reference bytecode is the in-process compile of the parsed source by the same build (what `run` compiles)".into(),
        "a program that `run` itself does not get past parsing/compiling obliges no stage".into(),
        "under a hard I/O error nothing is claimed about a stage that fails; an unwritable stdout of the *guest* program is no property's subject and is not injected".into(),
    ];
    need_shim();
    let violations = c06::run(seed, tier, &mut ev);
    ev.extra.insert("components".into(), serde_json::json!({
        "real": ["the unmodified fml CLI (parse, compile, execute, run) as child processes, debug and release", "the repository's `fml` wrapper script under bash", "kernel files and pipes", "serde_json / serde_lexpr / serde_yaml as linked"],
        "stub": ["libfmlsim.so: read()/write() outcomes on every stage's fds, getrandom"],
    }));
    report::finish(ev, violations)
}

fn cmd_replay(args: &[String]) -> i32 {
    let path = match args.first() {
        Some(p) => p,
        None => {
            eprintln!("HARNESS-ERROR missing replay file");
            return 2;
        }
    };
    let text = match std::fs::read_to_string(path) {
        Ok(t) => t,
        Err(e) => {
            eprintln!("HARNESS-ERROR cannot read {}: {}", path, e);
            return 2;
        }
    };
    let doc: serde_json::Value = match serde_json::from_str(&text) {
        Ok(v) => v,
        Err(e) => {
            eprintln!("HARNESS-ERROR {} is not JSON: {}", path, e);
            return 2;
        }
    };
    let property = doc.get("property").and_then(|p| p.as_str()).unwrap_or("?").to_string();
    let replay = doc.get("replay").cloned().unwrap_or(serde_json::Value::Null);
    let engine = replay.get("engine").and_then(|e| e.as_str()).unwrap_or("");
    let result = match engine {
        "in-process-abort" => replay_unit(&replay),
        c08::ENGINE_A => c08::replay(&replay),
        cycle::ENGINE => cycle::replay(&replay),
        cycleb::ENGINE => { need_shim(); cycleb::replay(&replay) }
        c11::ENGINE => { need_shim(); c11::replay(&replay) }
        c10::ENGINE => { need_shim(); c10::replay(&replay) }
        c06::ENGINE => { need_shim(); c06::replay(&replay) }
        c16::ENGINE_A => c16::replay_a(&replay),
        c16::ENGINE_B => { need_shim(); c16::replay_b(&replay) }
        c08b::ENGINE_B => { need_shim(); c08b::replay(&replay) }
        other => Err(format!("unknown engine `{}`", other)),
    };
    match result {
        Ok(Some((oracle, detail))) => {
            println!("VIOLATION property={} replay={}", property, path);
            println!("  oracle={} {}", oracle, detail);
            1
        }
        Ok(None) => {
            println!("REPLAY-PASSES property={} replay={} (the recorded violation does not occur on this tree)", property, path);
            0
        }
        Err(e) => {
            eprintln!("HARNESS-ERROR replay failed to run: {}", e);
            2
        }
    }
}

/// Re-runs one in-flight unit of a dead orchestrator. If the FML code aborts again, this process dies by the
/// same signal and the check script reports it; if it survives, the unit was not the culprit.
fn replay_unit(replay: &serde_json::Value) -> Result<Option<(String, String)>, String> {
    std::env::set_var("VERIF_NO_BREADCRUMBS", "1");
    let u = replay.get("unit").ok_or("no unit")?;
    match u.get("kind").and_then(|k| k.as_str()) {
        Some("c08") => c08::replay_unit(u)?,
        Some("cycle") => cycle::replay_unit(u)?,
        Some("c16a") => c16::replay_unit(u)?,
        Some("program") => {
            // compile, serialize, load, execute and round-trip through the AST formats: everything the process-level checks do in-process
            let spec = work::ProgSpec::from_json(u.get("program").ok_or("no program")?).ok_or("bad program")?;
            if let Ok(p) = spec.build() {
                if let Ok(bytes) = vm::serialize_to_vec(&p) { let _ = vm::load_from_slice(&bytes); }
                let _ = vm::run(&p, &vm::RunCfg { step_budget: 400_000, ..Default::default() });
            }
            if let Some(src) = spec.source() {
                if let Some(prep) = c06::prepare(&src) { for f in c06::Fmt::ALL { let _ = c06::roundtrip_in_process(&prep, f); } }
            }
        }
        _ => return Err("unknown unit kind".into()),
    }
    Ok(None)
}

fn cmd_gen(args: &[String]) -> i32 {
    let case = arg_value(args, "--case").and_then(|s| s.parse().ok()).unwrap_or(0u64);
    let seed = env_seed();
    let mut rng = util::Rng::for_case(seed, "gen", "debug", case);
    let cfg = gen::GenCfg::swarm(&mut rng);
    let p = gen::generate(&mut rng, &cfg);
    print!("{}", p.source());
    eprintln!("// allocs={:?} cfg={:?}", p.allocs(), cfg);
    0
}

fn cmd_bench_spawn(args: &[String]) -> i32 {
    let n: usize = arg_value(args, "--n").and_then(|s| s.parse().ok()).unwrap_or(2000);
    let profile = if args.iter().any(|a| a == "--debug") { proc::Profile::Debug } else { proc::Profile::Release };
    let shim = !args.iter().any(|a| a == "--no-shim");
    let start = std::time::Instant::now();
    let results = util::par_map(n, |i| {
        let dir = proc::scratch_dir();
        std::fs::write(dir.join("p.fml"), "print(\"probe ~\\n\", 1 + 2)\n").unwrap();
        let mut c = proc::Child::new(profile, &["run", "p.fml"]);
        if shim {
            c.shim = Some(proc::ShimCfg { seed: i as u64, plan: String::new(), clock: None, junk: 0, budget: None, ..Default::default() });
        }
        let r = proc::run_child(&dir, &c);
        let _ = std::fs::remove_dir_all(&dir);
        r.exit == proc::Exit::Code(0)
    });
    let ok = results.iter().filter(|b| **b).count();
    let dt = start.elapsed().as_secs_f64();
    println!("{} children, {} ok, {:.2} s, {:.0} children/s", n, ok, dt, n as f64 / dt);
    0
}
