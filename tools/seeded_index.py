#!/usr/bin/env python3
"""Regenerate the table at the end of seeded/README.md from the meta.json files."""
import json, os, re
root = '/verif/seeded'
rows = []
def key(n):
    m = re.match(r'([MS])(\d+)', n); return (m.group(1), int(m.group(2))) if m else ('Z', 0)
for d in sorted((x for x in os.listdir(root) if os.path.isdir(os.path.join(root, x))), key=key):
    mp = os.path.join(root, d, 'meta.json')
    if not os.path.exists(mp): continue
    m = json.load(open(mp))
    needs = m.get('needs_to_manifest', '')
    if needs == 'see README.md':
        for n in ('README.md', 'README'):
            p = os.path.join(root, d, n)
            if os.path.exists(p):
                txt = open(p).read()
                mm = re.search(r'(?is)(needs?|to manifest|trigger|manifest)[^\n]*\n?(.{0,400})', txt)
                needs = ' '.join((mm.group(0) if mm else txt[:300]).split())[:200]
                break
    first = m.get('first_contact') or ('caught' if 'caught' in str(m.get('result', '')) else '?')
    rows.append('| %s | %s | %s | %s |' % (d, m.get('breaks'), ' '.join(str(needs).split())[:120].replace('|', '/'), first))
p = os.path.join(root, 'README.md')
s = open(p).read()
head = s[:s.index('| id | breaks | needs | first contact |')]
open(p, 'w').write(head + '| id | breaks | needs | first contact |\n|---|---|---|---|\n' + '\n'.join(rows) + '\n')
print(len(rows), 'rows')
