#!/bin/bash
# tools/sweep_patches.sh benign|seeded ['name-glob name-glob ...'] — run the quick checks against every stored change in a private scratch
# worktree (/tmp/fml-sweep-$$, removed afterwards), without touching /repo or /verif/evidence, so it can run in the background.
#   benign: all seven checks must stay quiet (an alarm is a false alarm of the machinery)
#   seeded: the check(s) of the property the change was written against must report it
set -u
mode="$1"; glob="${2:-*}"
WT="/tmp/fml-sweep-$$"; OUT="/dev/shm/fmlsim-sweep-out-$$"
git -C /repo worktree add --detach -q "$WT" HEAD || exit 2
mkdir -p "$OUT"
cleanup() { git -C /repo worktree remove --force "$WT" 2>/dev/null; rm -rf "$OUT"; }
trap cleanup EXIT
export FML_REPO="$WT" VERIF_OUT="$OUT"
for g in $glob; do for d in /verif/$mode/$g/; do
  id="$(basename "$d")"; [ -f "$d/patch.diff" ] || continue
  git -C "$WT" checkout -q -- . ; git -C "$WT" apply --3way "$d/patch.diff" 2>/dev/null || git -C "$WT" apply "$d/patch.diff" || { echo "$id: PATCH-DOES-NOT-APPLY"; git -C "$WT" reset -q --hard; continue; }
  if [ "$mode" = benign ]; then ids="C03 C04 C06 C08 C10 C11 C16"; else
    ids="$(python3 -c "
import json,re,sys
m=json.load(open('$d/meta.json')); b=m.get('breaks')
s=' '.join(b) if isinstance(b,list) else str(b)
print(' '.join(dict.fromkeys(re.findall(r'C\d\d',s))))")"; fi
  line="$id:"
  for c in $ids; do
    out="$(/verif/check "$c" quick 2>&1)"; rc=$?
    case $rc in 0) line="$line $c=quiet";; 1) line="$line $c=ALARM($(echo "$out" | grep -A1 '^VIOLATION' | sed -n 2p | cut -c1-70))";; *) line="$line $c=HARNESS-ERROR($rc)";; esac
  done
  echo "$line"
  git -C "$WT" reset -q --hard
done; done
