#!/bin/bash
# tools/refinal.sh <seeded-id> <property> "<strengthening it led to>" — re-run the quick check against a seeded change that was
# missed at first contact and record the final result and the strengthening in its meta.json
set -u
id="$1"; prop="$2"; txt="$3"
res="$(/verif/tools/try_mutant.sh /verif/seeded/$id/patch.diff $prop 2>&1 | tail -1)"
python3 - "$id" "$txt" "$res" <<'P'
import json,sys
id_,txt,res=sys.argv[1:4]
p='/verif/seeded/%s/meta.json'%id_
m=json.load(open(p)); m['strengthening_it_led_to']=txt; m['final_result']=res
json.dump(m,open(p,'w'),indent=1,ensure_ascii=False); print(id_,'|',res[:220])
P
