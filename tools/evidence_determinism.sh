#!/bin/bash
# Runs every quick check three times (16, 16 and 5 workers) and compares the evidence files after removing the
# only fields that may legitimately differ (wall time and rates derived from it).
cd /verif
norm() { python3 - "$1" <<'PY'
import json,sys
d=json.load(open(sys.argv[1])); d.pop('wall_s',None); d['coverage'].pop('simulated_runs_per_hour',None)
print(json.dumps(d,sort_keys=True))
PY
}
rc=0
for id in ${IDS:-C03 C04 C06 C08 C10 C11 C16}; do
  ./check $id quick >/dev/null 2>&1; norm evidence/$id.json > /dev/shm/ev-$id-a.json
  ./check $id quick >/dev/null 2>&1; norm evidence/$id.json > /dev/shm/ev-$id-b.json
  VERIF_WORKERS=5 ./check $id quick >/dev/null 2>&1; norm evidence/$id.json > /dev/shm/ev-$id-c.json
  if cmp -s /dev/shm/ev-$id-a.json /dev/shm/ev-$id-b.json && cmp -s /dev/shm/ev-$id-a.json /dev/shm/ev-$id-c.json; then echo "$id evidence identical across 3 runs (16/16/5 workers)"; else echo "$id EVIDENCE DIFFERS"; rc=1; fi
done
./check C03 quick >/dev/null 2>&1   # leave evidence from a 16-worker run
exit $rc
