//! Simulated byte sink and byte source driven by explicit fault plans (DESIGN §3.1, §3.4).
//! A plan is data: it is generated from the case PRNG before the run, recorded, replayed and
//! minimised by deletion. The simulated objects never flip coins themselves.

use serde_json::{json, Value};
use std::cell::RefCell;
use std::io;
use std::rc::Rc;

use super::util::Rng;

// ------------------------------------------------------------------------------------------------
// Write side

#[derive(Clone, Debug, PartialEq, Eq, Hash)]
pub enum WAct {
    /// accept only `n` bytes of this request (clamped to 1..len-1; a 1-byte request is unaffected)
    Short(usize),
    /// accept all but the last byte of this request
    AllButOne,
    /// fail with ErrorKind::Interrupted, nothing taken (EINTR)
    Eintr,
    /// return Ok(0): the sink can take no more
    Zero,
    /// fail hard with ENOSPC-like error; sticky
    Hard,
    /// fail this call only with a non-Interrupted error (0 = WouldBlock/EAGAIN, 1 = TimedOut, 2 = EIO), nothing taken; the next
    /// call is served again. A writer may report it, or resume exactly where it stood — never start the request over.
    Once(u8),
}

impl WAct {
    pub fn is_transient(&self) -> bool {
        matches!(self, WAct::Short(_) | WAct::AllButOne | WAct::Eintr)
    }
    pub fn name(&self) -> &'static str {
        match self {
            WAct::Short(_) => "short",
            WAct::AllButOne => "short",
            WAct::Eintr => "eintr",
            WAct::Zero => "zero",
            WAct::Hard => "hard",
            WAct::Once(_) => "once",
        }
    }
    fn to_json(&self) -> Value {
        match self {
            WAct::Short(n) => json!({"short": n}),
            WAct::AllButOne => json!("all_but_one"),
            WAct::Eintr => json!("eintr"),
            WAct::Zero => json!("zero"),
            WAct::Hard => json!("hard"),
            WAct::Once(k) => json!({"once": k}),
        }
    }
    fn from_json(v: &Value) -> Option<WAct> {
        if let Some(k) = v.get("once").and_then(|n| n.as_u64()) { return Some(WAct::Once(k as u8)); }
        if let Some(s) = v.as_str() {
            return match s {
                "all_but_one" => Some(WAct::AllButOne),
                "eintr" => Some(WAct::Eintr),
                "zero" => Some(WAct::Zero),
                "hard" => Some(WAct::Hard),
                _ => None,
            };
        }
        v.get("short").and_then(|n| n.as_u64()).map(|n| WAct::Short(n as usize))
    }
}

#[derive(Clone, Debug, PartialEq, Eq, Hash, Default)]
pub struct WritePlan {
    /// every call accepts at most this many bytes
    pub limit: Option<usize>,
    /// sparse per-call actions, keyed by write-call index on the simulated fd
    pub at: Vec<(usize, WAct)>,
    /// the n-th flush call on the simulated fd fails (hard, sticky)
    pub flush_fail: Option<usize>,
}

impl WritePlan {
    pub fn clean() -> Self {
        WritePlan::default()
    }
    pub fn limit(k: usize) -> Self {
        WritePlan { limit: Some(k), ..Default::default() }
    }
    pub fn one(call: usize, act: WAct) -> Self {
        WritePlan { at: vec![(call, act)], ..Default::default() }
    }
    pub fn has_hard(&self) -> bool {
        self.flush_fail.is_some() || self.at.iter().any(|(_, a)| !a.is_transient())
    }
    pub fn transient_count(&self) -> usize {
        self.at.iter().filter(|(_, a)| a.is_transient()).count()
    }
    pub fn is_clean(&self) -> bool {
        self.limit.is_none() && self.at.is_empty() && self.flush_fail.is_none()
    }
    pub fn to_json(&self) -> Value {
        json!({
            "limit": self.limit,
            "at": self.at.iter().map(|(i, a)| json!([i, a.to_json()])).collect::<Vec<_>>(),
            "flush_fail": self.flush_fail,
        })
    }
    pub fn from_json(v: &Value) -> Option<WritePlan> {
        let limit = v.get("limit").and_then(|x| x.as_u64()).map(|x| x as usize);
        let mut at = Vec::new();
        for e in v.get("at")?.as_array()? {
            let i = e.get(0)?.as_u64()? as usize;
            at.push((i, WAct::from_json(e.get(1)?)?));
        }
        let flush_fail = v.get("flush_fail").and_then(|x| x.as_u64()).map(|x| x as usize);
        Some(WritePlan { limit, at, flush_fail })
    }
}

#[derive(Clone, Debug, Default)]
pub struct FiredCounts {
    pub short: u64,
    pub limit: u64,
    pub eintr: u64,
    pub zero: u64,
    pub hard: u64,
    pub flush_fail: u64,
    pub once: u64,
}

impl FiredCounts {
    pub fn any(&self) -> bool {
        self.short + self.limit + self.eintr + self.zero + self.hard + self.flush_fail + self.once > 0
    }
    pub fn any_hard(&self) -> bool {
        self.zero + self.hard + self.flush_fail + self.once > 0
    }
    pub fn add(&mut self, o: &FiredCounts) {
        self.short += o.short;
        self.limit += o.limit;
        self.eintr += o.eintr;
        self.zero += o.zero;
        self.hard += o.hard;
        self.flush_fail += o.flush_fail;
        self.once += o.once;
    }
    pub fn to_json(&self) -> Value {
        json!({"short_write": self.short, "acceptance_limit": self.limit, "eintr": self.eintr,
               "ok_zero": self.zero, "hard_error": self.hard, "flush_error": self.flush_fail, "one_off_error_eagain_etimedout_eio": self.once})
    }
}

#[derive(Debug, Default)]
pub struct FdState {
    pub plan: WritePlan,
    pub received: Vec<u8>,
    pub write_calls: usize,
    pub flush_calls: usize,
    pub dead: bool,
    pub budget: usize,
    pub budget_exceeded: bool,
    pub fired: FiredCounts,
    /// (offset at which the call started, requested length, accepted or -1 eintr / -2 hard / 0 zero)
    pub log: Vec<(usize, usize, i64)>,
    pub keep_log: bool,
    /// offsets (in received bytes) at which a fault fired, with the fault name
    pub fault_offsets: Vec<(usize, &'static str)>,
}

/// The simulated file descriptor. Cloning shares the state, so the harness keeps a handle while
/// std adaptors (BufWriter, LineWriter, FML's NamedSink) own the other one.
#[derive(Clone, Debug)]
pub struct SimFd(pub Rc<RefCell<FdState>>);

impl SimFd {
    pub fn new(plan: WritePlan, budget: usize) -> SimFd {
        SimFd(Rc::new(RefCell::new(FdState { plan, budget, ..Default::default() })))
    }
    pub fn keep_log(self) -> SimFd {
        self.0.borrow_mut().keep_log = true;
        self
    }
    pub fn received(&self) -> Vec<u8> {
        self.0.borrow().received.clone()
    }
}

/// Hard errors a real sink meets: ENOSPC, EIO, EPIPE, EDQUOT, EFBIG — which one is a function of the call index,
/// so a plan stays plain data and a sticky error repeats itself.
const HARD_ERRNOS: [i32; 5] = [28, 5, 32, 122, 27];
fn hard_error_for(call: usize) -> io::Error {
    io::Error::from_raw_os_error(HARD_ERRNOS[call % HARD_ERRNOS.len()])
}
fn hard_error() -> io::Error {
    io::Error::from_raw_os_error(28) // ENOSPC
}

impl io::Write for SimFd {
    fn write(&mut self, buf: &[u8]) -> io::Result<usize> {
        let mut st = self.0.borrow_mut();
        let call = st.write_calls;
        st.write_calls += 1;
        let offset = st.received.len();
        if st.write_calls > st.budget {
            st.budget_exceeded = true;
            return Err(io::Error::new(io::ErrorKind::Other, "fmlsim: call budget exceeded"));
        }
        if st.dead {
            if st.keep_log {
                st.log.push((offset, buf.len(), -2));
            }
            return Err(hard_error());
        }
        if buf.is_empty() {
            if st.keep_log {
                st.log.push((offset, 0, 0));
            }
            return Ok(0);
        }
        let action = st.plan.at.iter().find(|(i, _)| *i == call).map(|(_, a)| a.clone());
        let mut accept = buf.len();
        match action {
            Some(WAct::Eintr) => {
                st.fired.eintr += 1;
                st.fault_offsets.push((offset, "eintr"));
                if st.keep_log {
                    st.log.push((offset, buf.len(), -1));
                }
                return Err(io::Error::from(io::ErrorKind::Interrupted));
            }
            Some(WAct::Zero) => {
                st.fired.zero += 1;
                st.fault_offsets.push((offset, "zero"));
                if st.keep_log {
                    st.log.push((offset, buf.len(), 0));
                }
                return Ok(0);
            }
            Some(WAct::Hard) => {
                st.fired.hard += 1;
                st.dead = true;
                st.fault_offsets.push((offset, "hard"));
                if st.keep_log {
                    st.log.push((offset, buf.len(), -2));
                }
                return Err(hard_error_for(call));
            }
            Some(WAct::Once(kind)) => {
                st.fired.once += 1;
                st.fault_offsets.push((offset, "once"));
                if st.keep_log {
                    st.log.push((offset, buf.len(), -3));
                }
                return Err(match kind % 3 { 0 => io::Error::from(io::ErrorKind::WouldBlock), 1 => io::Error::from(io::ErrorKind::TimedOut), _ => io::Error::from_raw_os_error(5) });
            }
            Some(WAct::Short(n)) => {
                if buf.len() > 1 {
                    accept = n.max(1).min(buf.len() - 1);
                    st.fired.short += 1;
                    st.fault_offsets.push((offset, "short"));
                }
            }
            Some(WAct::AllButOne) => {
                if buf.len() > 1 {
                    accept = buf.len() - 1;
                    st.fired.short += 1;
                    st.fault_offsets.push((offset, "short"));
                }
            }
            None => {}
        }
        if let Some(k) = st.plan.limit {
            if accept > k.max(1) {
                accept = k.max(1);
                st.fired.limit += 1;
                st.fault_offsets.push((offset, "limit"));
            }
        }
        st.received.extend_from_slice(&buf[..accept]);
        if st.keep_log {
            st.log.push((offset, buf.len(), accept as i64));
        }
        Ok(accept)
    }

    fn flush(&mut self) -> io::Result<()> {
        let mut st = self.0.borrow_mut();
        let call = st.flush_calls;
        st.flush_calls += 1;
        if st.dead {
            return Err(hard_error());
        }
        if st.plan.flush_fail == Some(call) {
            st.fired.flush_fail += 1;
            st.dead = true;
            let off = st.received.len();
            st.fault_offsets.push((off, "flush"));
            return Err(hard_error());
        }
        Ok(())
    }
}

// ------------------------------------------------------------------------------------------------
// Read side

#[derive(Clone, Debug, PartialEq, Eq, Hash)]
pub enum RAct {
    /// deliver at most n bytes on this call (at least 1 unless at EOF)
    Short(usize),
    Eintr,
    /// the medium fails: this and every later call returns a hard error (EIO-like, not Interrupted); sticky
    Hard,
    /// a one-off hard error on this call only; later calls deliver again
    HardOnce,
}

#[derive(Clone, Debug, PartialEq, Eq, Hash, Default)]
pub struct ReadPlan {
    /// every call delivers at most this many bytes
    pub chunk: Option<usize>,
    pub at: Vec<(usize, RAct)>,
}

impl ReadPlan {
    pub fn clean() -> Self {
        ReadPlan::default()
    }
    pub fn chunk(k: usize) -> Self {
        ReadPlan { chunk: Some(k), at: vec![] }
    }
    pub fn is_clean(&self) -> bool {
        self.chunk.is_none() && self.at.is_empty()
    }
    pub fn has_hard(&self) -> bool {
        self.at.iter().any(|(_, a)| *a == RAct::Hard || *a == RAct::HardOnce)
    }
    pub fn to_json(&self) -> Value {
        json!({
            "chunk": self.chunk,
            "at": self.at.iter().map(|(i, a)| match a {
                RAct::Short(n) => json!([i, {"short": n}]),
                RAct::Eintr => json!([i, "eintr"]),
                RAct::Hard => json!([i, "hard"]),
                RAct::HardOnce => json!([i, "hard_once"]),
            }).collect::<Vec<_>>(),
        })
    }
    pub fn from_json(v: &Value) -> Option<ReadPlan> {
        let chunk = v.get("chunk").and_then(|x| x.as_u64()).map(|x| x as usize);
        let mut at = Vec::new();
        for e in v.get("at")?.as_array()? {
            let i = e.get(0)?.as_u64()? as usize;
            let a = e.get(1)?;
            let act = if a.as_str() == Some("eintr") {
                RAct::Eintr
            } else if a.as_str() == Some("hard") {
                RAct::Hard
            } else if a.as_str() == Some("hard_once") {
                RAct::HardOnce
            } else {
                RAct::Short(a.get("short")?.as_u64()? as usize)
            };
            at.push((i, act));
        }
        Some(ReadPlan { chunk, at })
    }
}

#[derive(Debug)]
pub struct SimSource<'a> {
    pub data: &'a [u8],
    pub pos: usize,
    pub plan: ReadPlan,
    pub calls: usize,
    pub budget: usize,
    pub budget_exceeded: bool,
    pub short_fired: u64,
    pub chunk_fired: u64,
    pub eintr_fired: u64,
    pub hard_fired: u64,
    dead: bool,
    /// offsets at which a delivery was cut short
    pub cut_offsets: Vec<usize>,
}

impl<'a> SimSource<'a> {
    pub fn new(data: &'a [u8], plan: ReadPlan, budget: usize) -> Self {
        SimSource { data, pos: 0, plan, calls: 0, budget, budget_exceeded: false,
                    short_fired: 0, chunk_fired: 0, eintr_fired: 0, hard_fired: 0, dead: false, cut_offsets: Vec::new() }
    }
    pub fn remaining(&self) -> usize {
        self.data.len() - self.pos
    }
}

impl<'a> io::Read for SimSource<'a> {
    fn read(&mut self, buf: &mut [u8]) -> io::Result<usize> {
        let call = self.calls;
        self.calls += 1;
        if self.calls > self.budget {
            self.budget_exceeded = true;
            return Err(io::Error::new(io::ErrorKind::Other, "fmlsim: call budget exceeded"));
        }
        // a failing medium fails whatever is asked, also the call that would have reported end-of-file
        if self.dead || matches!(self.plan.at.iter().find(|(i, _)| *i == call), Some((_, RAct::Hard))) {
            self.dead = true;
            self.hard_fired += 1;
            return Err(io::Error::new(io::ErrorKind::Other, "fmlsim: injected hard read error (EIO)"));
        }
        if matches!(self.plan.at.iter().find(|(i, _)| *i == call), Some((_, RAct::HardOnce))) {
            self.hard_fired += 1;
            return Err(io::Error::new(io::ErrorKind::Other, "fmlsim: injected one-off hard read error (EIO)"));
        }
        let avail = self.data.len() - self.pos;
        let want = buf.len().min(avail);
        if want == 0 {
            return Ok(0);
        }
        let mut give = want;
        match self.plan.at.iter().find(|(i, _)| *i == call).map(|(_, a)| a.clone()) {
            Some(RAct::Eintr) => {
                self.eintr_fired += 1;
                return Err(io::Error::from(io::ErrorKind::Interrupted));
            }
            Some(RAct::Short(n)) => {
                let n = n.max(1);
                if give > n {
                    give = n;
                    self.short_fired += 1;
                    self.cut_offsets.push(self.pos + give);
                }
            }
            Some(RAct::Hard) | Some(RAct::HardOnce) | None => {}
        }
        if let Some(k) = self.plan.chunk {
            let k = k.max(1);
            if give > k {
                give = k;
                self.chunk_fired += 1;
                self.cut_offsets.push(self.pos + give);
            }
        }
        buf[..give].copy_from_slice(&self.data[self.pos..self.pos + give]);
        self.pos += give;
        Ok(give)
    }
}

// ------------------------------------------------------------------------------------------------
// Seeded plan generation (DESIGN §3.4 rates). `calls` is the number of write calls the fault-free run
// made on this fd, so that faults land inside the operation and not after it.

pub fn random_write_plan(rng: &mut Rng, calls: usize, allow_hard: bool) -> WritePlan {
    let calls = calls.max(1);
    let mut plan = WritePlan::clean();
    match rng.below(3) {
        0 => {
            // exactly one fault, placed inside the operation
            let at = rng.usize_below(calls);
            let act = match rng.below(if allow_hard { 7 } else { 4 }) {
                6 => WAct::Once(rng.below(3) as u8),
                0 => WAct::Short(1),
                1 => WAct::AllButOne,
                2 => WAct::Short(1 + rng.usize_below(16)),
                3 => WAct::Eintr,
                4 => WAct::Hard,
                _ => WAct::Zero,
            };
            plan.at.push((at, act));
        }
        1 => {
            // a per-call limit, possibly with a few extra transient faults
            let ks = [1usize, 2, 3, 4, 5, 7, 8, 16, 64, 255, 1023, 1024, 1025, 4096, 8191, 8192];
            plan.limit = Some(*rng.pick(&ks));
            let extra = rng.usize_below(3);
            for _ in 0..extra {
                plan.at.push((rng.usize_below(calls * 2), if rng.coin() { WAct::Eintr } else { WAct::Short(1) }));
            }
        }
        _ => {
            // random mix at 1–10 % per call
            let percent = 1 + rng.below(10);
            let horizon = calls * 2;
            let mut hard_used = false;
            for i in 0..horizon {
                if rng.below(100) < percent {
                    let act = match rng.below(if allow_hard && !hard_used { 10 } else { 8 }) {
                        0..=2 => WAct::Short(1 + rng.usize_below(8)),
                        3..=4 => WAct::AllButOne,
                        5..=7 => WAct::Eintr,
                        8 => { hard_used = true; WAct::Hard }
                        _ => { hard_used = true; WAct::Zero }
                    };
                    plan.at.push((i, act));
                    if hard_used { break; }
                }
            }
            if allow_hard && !hard_used && rng.below(20) == 0 {
                plan.flush_fail = Some(0);
            }
        }
    }
    plan.at.sort_by_key(|(i, _)| *i);
    plan.at.dedup_by_key(|(i, _)| *i);
    plan
}

pub fn random_read_plan(rng: &mut Rng, len: usize) -> ReadPlan {
    let mut plan = ReadPlan::clean();
    match rng.below(4) {
        0 => {
            let ks = [1usize, 2, 3, 4, 5, 7, 8, 13, 64, 255, 256, 4095, 4096, 8191, 8192];
            plan.chunk = Some(*rng.pick(&ks));
        }
        1 => {
            // a single cut / interruption somewhere
            let horizon = len.max(1);
            let at = rng.usize_below(horizon.min(4096));
            plan.at.push((at, if rng.coin() { RAct::Eintr } else { RAct::Short(1 + rng.usize_below(3)) }));
        }
        2 => {
            let percent = 1 + rng.below(30);
            let horizon = len.min(4000).max(4);
            for i in 0..horizon {
                if rng.below(100) < percent {
                    plan.at.push((i, if rng.below(3) == 0 { RAct::Eintr } else { RAct::Short(1 + rng.usize_below(6)) }));
                }
            }
        }
        _ => {
            plan.chunk = Some(1 + rng.usize_below(9));
            let horizon = len.min(2000).max(4);
            for i in 0..horizon {
                if rng.below(100) < 5 {
                    plan.at.push((i, RAct::Eintr));
                }
            }
        }
    }
    plan
}
