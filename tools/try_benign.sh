#!/bin/bash
# tools/try_benign.sh <patch.diff> [IDs...] — apply a property-preserving change to /repo, run the quick checks, undo it.
# Every check must exit 0: an alarm here is a false alarm of the machinery.
set -u
patch="$(readlink -f "$1")"; shift
ids="${*:-C03 C04 C06 C08 C10 C11 C16}"
cd /verif
if ! git -C /repo diff --quiet; then echo "refusing: /repo has uncommitted changes"; exit 2; fi
keep="$(mktemp -d /dev/shm/fmlsim-evidence.XXXXXX)"; cp -a /verif/evidence/. "$keep"/
restore() { git -C /repo checkout -- . ; mkdir -p /verif/build; touch /verif/build/.stale ; cp -a "$keep"/. /verif/evidence/ ; rm -rf "$keep" ; }
trap restore EXIT
git -C /repo apply "$patch" || { echo "patch does not apply"; exit 2; }
bad=0
for id in $ids; do
  out="$(./check "$id" quick 2>&1)"; rc=$?
  if [ $rc -ne 0 ]; then bad=1; echo "FALSE-ALARM? $id rc=$rc $(echo "$out" | grep -A1 '^VIOLATION\|HARNESS' | head -4 | tr '\n' ' ' | cut -c1-400)"; fi
done
[ $bad -eq 0 ] && echo "quiet: all of [$ids] exit 0"
exit $bad
