//! Workload plumbing shared by the checks: program specifications that can be written into a
//! replay file and rebuilt from it, the in-repo corpus (W4), and generated programs (W1/W2).

use serde_json::{json, Value};
use std::path::PathBuf;

use crate::bytecode::program::Program;

use super::foreign::{self, FModel, ModelCfg};
use super::gen::{self, GenCfg};
use super::util::{from_hex, to_hex, Rng};
use super::vm;

pub fn repo_root() -> PathBuf {
    PathBuf::from(std::env::var("FML_REPO").unwrap_or_else(|_| "/repo".to_string()))
}

#[derive(Clone, Debug)]
pub enum ProgSpec {
    /// top-level statements, joined with ";\n" — shrinkable by deleting statements
    Stmts(Vec<String>),
    /// one opaque source text (corpus file)
    Source(String),
    /// a format-level model built into a Program through the public constructor (W2)
    Model(FModel),
    /// a serialized image loaded with FML's loader (corpus .bc)
    Image(Vec<u8>),
}

impl ProgSpec {
    pub fn source(&self) -> Option<String> {
        match self {
            ProgSpec::Stmts(v) => Some(join_stmts(v)),
            ProgSpec::Source(s) => Some(s.clone()),
            _ => None,
        }
    }
    pub fn build(&self) -> Result<Program, String> {
        match self {
            ProgSpec::Stmts(_) | ProgSpec::Source(_) => vm::compile_source(&self.source().unwrap()),
            ProgSpec::Model(m) => foreign::build_program(m),
            ProgSpec::Image(b) => vm::load_from_slice(b),
        }
    }
    pub fn to_json(&self) -> Value {
        match self {
            ProgSpec::Stmts(v) => json!({"stmts": v}),
            // the pool-boundary programs are half a megabyte of text each: recorded by their construction
            ProgSpec::Source(s) if s.len() > 300_000 && *s == pool_boundary_source(s.lines().count() + 2) => json!({"pool_boundary_source": s.lines().count() + 2}),
            ProgSpec::Source(s) => json!({"source": s}),
            // a pool beyond the u16 count cannot be written by any encoder: such a model is recorded by its construction
            ProgSpec::Model(m) if m.consts.len() > 65_535 => json!({"boundary_pool": m.consts.len()}),
            ProgSpec::Model(m) => json!({"model_hex": to_hex(&foreign::encode(m))}),
            ProgSpec::Image(b) => json!({"image_hex": to_hex(b)}),
        }
    }
    pub fn from_json(v: &Value) -> Option<ProgSpec> {
        if let Some(a) = v.get("stmts").and_then(|x| x.as_array()) {
            return Some(ProgSpec::Stmts(a.iter().filter_map(|s| s.as_str().map(|s| s.to_string())).collect()));
        }
        if let Some(s) = v.get("source").and_then(|x| x.as_str()) {
            return Some(ProgSpec::Source(s.to_string()));
        }
        if let Some(n) = v.get("pool_boundary_source").and_then(|x| x.as_u64()) {
            return Some(ProgSpec::Source(pool_boundary_source(n as usize)));
        }
        if let Some(n) = v.get("boundary_pool").and_then(|x| x.as_u64()) {
            return Some(ProgSpec::Model(foreign::boundary_pool_model(n as usize)));
        }
        if let Some(h) = v.get("model_hex").and_then(|x| x.as_str()) {
            let bytes = from_hex(h)?;
            return foreign::decode(&bytes).ok().map(|(m, _)| ProgSpec::Model(m));
        }
        if let Some(h) = v.get("image_hex").and_then(|x| x.as_str()) {
            return from_hex(h).map(ProgSpec::Image);
        }
        None
    }
    pub fn brief(&self) -> Value {
        match self {
            ProgSpec::Stmts(v) => {
                let s = join_stmts(v);
                json!({"kind": "generated_source", "statements": v.len(), "bytes": s.len(), "head": head(&s)})
            }
            ProgSpec::Source(s) => json!({"kind": "corpus_source", "bytes": s.len(), "head": head(s)}),
            ProgSpec::Model(m) => json!({"kind": "direct_model", "constants": m.consts.len(), "globals": m.globals.len()}),
            ProgSpec::Image(b) => json!({"kind": "corpus_image", "bytes": b.len()}),
        }
    }
}

fn head(s: &str) -> String {
    let mut out: String = s.chars().take(160).collect();
    if s.chars().count() > 160 {
        out.push('…');
    }
    out
}

pub fn join_stmts(v: &[String]) -> String {
    let mut s = v.join(";\n");
    s.push('\n');
    s
}

// ------------------------------------------------------------------------------------------------
// W4: the in-repo corpus

fn walk(dir: &PathBuf, ext: &str, out: &mut Vec<PathBuf>) {
    if let Ok(rd) = std::fs::read_dir(dir) {
        let mut entries: Vec<PathBuf> = rd.filter_map(|e| e.ok().map(|e| e.path())).collect();
        entries.sort();
        for p in entries {
            if p.is_dir() {
                walk(&p, ext, out);
            } else if p.extension().and_then(|e| e.to_str()) == Some(ext) {
                out.push(p);
            }
        }
    }
}

pub fn corpus_files(ext: &str) -> Vec<(String, Vec<u8>)> {
    let root = repo_root();
    let mut paths = Vec::new();
    walk(&root.join("tests"), ext, &mut paths);
    walk(&root.join("examples"), ext, &mut paths);
    paths
        .into_iter()
        .filter_map(|p| {
            let rel = p.strip_prefix(&root).map(|r| r.display().to_string()).unwrap_or_else(|_| p.display().to_string());
            std::fs::read(&p).ok().map(|b| (rel, b))
        })
        .collect()
}

pub fn corpus_specs() -> Vec<(String, ProgSpec)> {
    let mut out = Vec::new();
    for (name, bytes) in corpus_files("fml") {
        if let Ok(text) = String::from_utf8(bytes) {
            out.push((name, ProgSpec::Source(text)));
        }
    }
    for (name, bytes) in corpus_files("bc") {
        out.push((name, ProgSpec::Image(bytes)));
    }
    out
}

// ------------------------------------------------------------------------------------------------
// Generated programs

pub fn gen_source_spec(rng: &mut Rng, cfg: &GenCfg) -> (ProgSpec, Option<u64>) {
    let p = gen::generate(rng, cfg);
    let allocs = p.allocs();
    (ProgSpec::Stmts(p.stmts.into_iter().map(|s| s.text).collect()), allocs)
}

pub fn gen_model_spec(rng: &mut Rng, big: bool) -> ProgSpec {
    let cfg = ModelCfg {
        max_consts: if big && rng.below(4) == 0 { 400 } else { 40 },
        max_code: if big && rng.below(8) == 0 { 70_000 } else { 300 },
        long_string: if big { Some(70 * 1024) } else { Some(2048) },
        many_methods: rng.below(5) == 0,
    };
    ProgSpec::Model(foreign::gen_model(rng, &cfg))
}

// ------------------------------------------------------------------------------------------------
// Qualification: a process-level check only takes programs whose own in-process run finishes
// within a step budget (a generated program that does not terminate is a generator defect, not a
// finding; it must not cost a 20 s watchdog per child).

pub fn qualify(spec: &ProgSpec, step_budget: u64) -> Option<vm::RunResult> {
    let program = match spec.build() {
        Ok(p) => p,
        Err(_) => return None,
    };
    let r = vm::run(&program, &vm::RunCfg { step_budget, ..Default::default() });
    if r.end == vm::RunEnd::Budget { None } else { Some(r) }
}

/// true when the source does not even compile (still a legitimate subject for some checks)
pub fn builds(spec: &ProgSpec) -> bool {
    spec.build().is_ok()
}

// ------------------------------------------------------------------------------------------------
// W1x: scale templates — ordinary-looking programs that cross size thresholds inside the format and the
// implementation: > 255 and > 4096 constants, hundreds of globals/functions/fields, methods beyond 65535
// instructions, strings beyond 64 KiB, outputs beyond the stdio buffers, thousands of allocations, loops of 10^5
// iterations. All terminate; the largest costs well under a second in a release build.

pub fn scale_templates() -> Vec<(String, String)> {
    let mut v: Vec<(String, String)> = Vec::new();
    let join = |n: usize, f: &dyn Fn(usize) -> String| (0..n).map(f).collect::<Vec<_>>().join(";\n");
    for n in [260usize, 1000, 4200] {
        v.push((format!("distinct_constants_{}", n), format!("let s = 0;\n{};\nprint(\"~\\n\", s)\n", join(n, &|i| format!("s <- s + {}", 1000 + i)))));
    }
    v.push(("globals_300".into(), format!("{};\nprint(\"~ ~ ~\\n\", g0, g150, g299)\n", join(300, &|i| format!("let g{} = {}", i, i * 3)))));
    v.push(("functions_300".into(), format!("{};\nprint(\"~ ~ ~\\n\", f0(1), f150(2), f299(3))\n", join(300, &|i| format!("function f{}(x) -> x + {}", i, i)))));
    v.push(("object_with_300_methods".into(), format!("let o = object begin\n{};\nend;\nprint(\"~ ~\\n\", o.m0(), o.m299())\n", join(300, &|i| format!("function m{}() -> {}", i, i)))));
    v.push(("method_beyond_65535_instructions".into(), format!("function big(x) -> begin\n{};\nx\nend;\nprint(\"~\\n\", big(0))\n", join(11_000, &|_| "x <- x + 1".to_string()))));
    v.push(("top_level_beyond_65535_instructions".into(), format!("let x = 0;\n{};\nprint(\"~\\n\", x)\n", join(17_000, &|_| "x <- x + 1".to_string()))));
    // lengths whose little-endian u32 holds a line-end byte (0x0A, 0x0D): a line-buffered sink treats the length prefix itself as text
    for n in [10usize, 13, 266, 1034, 1290, 2570, 2600, 2815, 3338, 6666] {
        v.push((format!("format_string_{}_bytes_length_prefix_holds_a_line_end", n), format!("print(\"{}\")\n", "y".repeat(n))));
    }
    for n in [255usize, 256, 4095, 4096, 8191, 8192, 65_535, 65_536, 70_000] {
        v.push((format!("format_string_{}_bytes", n), format!("print(\"{}\\n\")\n", "x".repeat(n))));
    }
    v.push(("format_string_66000_bytes_non_ascii".into(), format!("print(\"{}\\n\")\n", "é".repeat(33_000))));
    // multi-byte characters at every alignment relative to any power-of-two block: 2-byte characters at odd offsets, 3-byte and
    // 4-byte characters (their phase against 4096/8192 drifts), so that one of them straddles every block boundary
    v.push(("format_string_non_ascii_2_byte_chars_odd_offsets".into(), format!("print(\"a{}\\n\")\n", "é".repeat(5_000))));
    v.push(("format_string_non_ascii_3_byte_chars".into(), format!("print(\"{}\\n\")\n", "€".repeat(6_000))));
    v.push(("format_string_non_ascii_4_byte_chars".into(), format!("print(\"ab{}\\n\")\n", "😀".repeat(4_500))));
    v.push(("output_300_KiB".into(), "let i = 0;\nwhile i < 6000 do begin print(\"line ~ of the long output, padded to about fifty bytes\\n\", i); i <- i + 1 end\n".into()));
    v.push(("output_without_line_breaks_40_KiB".into(), "let i = 0;\nwhile i < 8000 do begin print(\"~,\", i); i <- i + 1 end\n".into()));
    v.push(("allocations_6000_objects_and_arrays".into(), "let i = 0;\nlet keep = null;\nwhile i < 3000 do begin keep <- object begin let n = i; function get() -> this.n; end; keep <- array(3, keep); i <- i + 1 end;\nprint(\"~\\n\", i)\n".into()));
    v.push(("loop_100000_iterations".into(), "let i = 0;\nlet s = 0;\nwhile i < 100000 do begin s <- s + i; i <- i + 1 end;\nprint(\"~\\n\", s)\n".into()));
    v.push(("array_of_100000_then_sum_of_first_ten".into(), "let a = array(100000, 7);\nlet i = 0;\nlet s = 0;\nwhile i < 10 do begin s <- s + a[i]; i <- i + 1 end;\nprint(\"~\\n\", s)\n".into()));
    v.push(("print_array_of_5000".into(), "let a = array(5000, 0);\nlet i = 0;\nwhile i < 5000 do begin a[i] <- i; i <- i + 1 end;\nprint(\"~\\n\", a)\n".into()));
    v.push(("call_255_arguments".into(), format!("function f({}) -> p0 + p254;\nprint(\"~\\n\", f({}))\n", (0..255).map(|i| format!("p{}", i)).collect::<Vec<_>>().join(", "), (0..255).map(|i| format!("{}", i)).collect::<Vec<_>>().join(", "))));
    v.push(("empty_everything".into(), "let o = object begin end;\nlet a = array(0, 0);\nfunction f() -> null;\nprint(\"\");\nprint(\"~~~\\n\", o, a, f())\n".into()));
    v.push(("field_named_like_method_and_builtin".into(), "let o = object extends 5 begin let get = 1; let m = 2; function m() -> 3; function +(x) -> 4; end;\nprint(\"~ ~ ~ ~\\n\", o.get, o.m, o.m(), o + 1)\n".into()));
    v
}

/// Qualification for scale templates: same idea as `qualify`, with a budget that admits their long loops.
pub fn qualify_scaled(name: &str, spec: &ProgSpec, default_budget: u64) -> Option<vm::RunResult> {
    qualify(spec, if name.starts_with("scale:") || name.starts_with("boundary:") || name.starts_with("stress:") { 4_000_000 } else { default_budget })
}

/// Programs whose constant pool ends up with exactly `total` entries, around the largest count the file format can carry in its
/// u16 header (65 535): n distinct integer statements, one format string, the entry method. Whatever `run` accepts here every
/// stage must accept, and what the format cannot carry `run` must refuse as well. (Compiling one takes seconds: pool look-ups are linear.)
pub fn pool_boundary_source(total: usize) -> String {
    let n = total - 3; // the format string, the entry method and its name
    let mut s = String::with_capacity(n * 7);
    for i in 0..n { s.push_str(&i.to_string()); s.push_str(";\n"); }
    s.push_str("print(\"x\\n\")\n");
    s
}
