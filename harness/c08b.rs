//! C08, layer B: `fml compile` as a real process writing to stdout (file / pipe / /dev/full), to
//! `-o FILE`, `-o DIR`, with the shim injecting short writes, EINTR and hard errors on the output fd.

use serde_json::{json, Value};

use super::gen::{GenCfg, StrRegime};
use super::proc::{run_child, scratch_dir, Child, ChildResult, Exit, In, Out, Profile, ShimCfg};
use super::report::{Evidence, Violation};
use super::util::{digest_of, first_difference, par_map, Rng};
use super::vm;
use super::work::{self, ProgSpec};

pub const ENGINE_B: &str = "process-sim:compile-sink";

#[derive(Clone, Debug, PartialEq, Eq, Hash)]
pub enum Sink {
    StdoutFile,
    StdoutPipe,
    DashOFile,
    DashODir,
    StdinToStdout,
    StdoutDevFull,
    DashODevFull,
    /// `-o FILE` with the AST on stdin, while — between this invocation opening its output and receiving its input — another
    /// invocation with the same `-o FILE` starts, is refused (malformed AST) and ends. A schedule of two processes sharing a path.
    DashOFileWhileAnotherInvocationFails,
    /// `-o /dev/stdout`: the output path is not a regular file
    DashODevStdout,
    /// two live invocations of the very same command line (`compile x.json -o FILE`) under the cooperative scheduler: both
    /// announce before opening the output and before each of their first writes to it; the harness decides who goes next
    DashOFileTwoScheduledInvocations,
    /// the same, but the *other* invocation (which opened the output first) is killed in the middle of its first write to it:
    /// whatever it held (a lock, a temporary name) is gone with it, and a partial file may be all it left
    DashOFileWhileAnotherLiveInvocationIsKilled,
    /// `-o FILE` spelled oddly: an upper- or mixed-case extension, a path through `lnk/..` with `lnk` a symbolic link to a directory
    /// elsewhere. The bytes belong where the operating system resolves the name as given.
    DashOFileOddSpelling,
    /// stdout is a regular file opened for appending that already holds a prefix (`fml compile a >> lib`, or the second command of
    /// `{ fml compile a; fml compile b; } > all`): the image must follow the prefix, and the prefix must stay
    StdoutAppendedToFile,
}

impl Sink {
    fn name(&self) -> &'static str {
        match self {
            Sink::StdoutFile => "stdout>file",
            Sink::StdoutPipe => "stdout|pipe",
            Sink::DashOFile => "-o FILE",
            Sink::DashODir => "-o DIR",
            Sink::StdinToStdout => "stdin->stdout|pipe",
            Sink::StdoutDevFull => "stdout>/dev/full",
            Sink::DashODevFull => "-o /dev/full",
            Sink::DashOFileWhileAnotherInvocationFails => "-o FILE while another invocation with the same -o FILE fails",
            Sink::DashODevStdout => "-o /dev/stdout",
            Sink::DashOFileTwoScheduledInvocations => "-o FILE, two live invocations of the same command under a decided interleaving",
            Sink::StdoutAppendedToFile => "stdout>>file with a prefix",
            Sink::DashOFileOddSpelling => "-o FILE with an oddly spelled name",
            Sink::DashOFileWhileAnotherLiveInvocationIsKilled => "-o FILE while another live invocation of the same command, which opened the file first, is killed mid-write",
        }
    }
    fn from_name(s: &str) -> Option<Sink> {
        [Sink::StdoutFile, Sink::StdoutPipe, Sink::DashOFile, Sink::DashODir, Sink::StdinToStdout, Sink::StdoutDevFull, Sink::DashODevFull, Sink::DashOFileWhileAnotherInvocationFails, Sink::DashODevStdout, Sink::DashOFileTwoScheduledInvocations, Sink::StdoutAppendedToFile, Sink::DashOFileWhileAnotherLiveInvocationIsKilled, Sink::DashOFileOddSpelling]
            .iter().find(|k| k.name() == s).cloned()
    }
    /// shim class of the fd the bytecode goes to
    fn class(&self) -> char {
        match self {
            Sink::DashOFile | Sink::DashODir | Sink::DashODevFull | Sink::DashOFileWhileAnotherInvocationFails | Sink::DashODevStdout | Sink::DashOFileTwoScheduledInvocations | Sink::DashOFileWhileAnotherLiveInvocationIsKilled | Sink::DashOFileOddSpelling => 'f',
            _ => 'o',
        }
    }
}

#[derive(Clone, Debug)]
pub struct ProcCase {
    pub spec: ProgSpec,
    pub profile: Profile,
    pub sink: Sink,
    /// shim plan on the output class, e.g. "o:*:l:1" — empty = no injected fault
    pub plan: String,
    /// bytes of a stale, longer file already sitting at the `-o` output path (0 = the path is new)
    pub stale: usize,
    /// name of the AST file handed to `fml compile`
    pub input_name: String,
    pub hash_seed: u64,
    /// the interleaving of the scheduled scenarios: whenever both invocations wait, character k ('0' = A, '1' = B) says who goes
    pub sched: String,
}

impl ProcCase {
    pub fn to_json(&self) -> Value {
        json!({"engine": ENGINE_B, "program": self.spec.to_json(), "profile": self.profile.name(), "sink": self.sink.name(),
               "plan": self.plan, "stale": self.stale, "input_name": self.input_name, "hash_seed": self.hash_seed, "sched": self.sched})
    }
    pub fn from_json(v: &Value) -> Option<ProcCase> {
        Some(ProcCase {
            spec: ProgSpec::from_json(v.get("program")?)?,
            profile: Profile::from_name(v.get("profile")?.as_str()?)?,
            sink: Sink::from_name(v.get("sink")?.as_str()?)?,
            plan: v.get("plan")?.as_str()?.to_string(),
            stale: v.get("stale").and_then(|x| x.as_u64()).unwrap_or(0) as usize,
            input_name: v.get("input_name").and_then(|x| x.as_str()).unwrap_or("x.json").to_string(),
            hash_seed: v.get("hash_seed")?.as_u64()?,
            sched: v.get("sched").and_then(|x| x.as_str()).unwrap_or("").to_string(),
        })
    }
    fn plan_is_hard(&self) -> bool {
        self.plan.contains(":x:")
    }
}

/// what already sits in the file that stdout is appended to (another image, as in a library of concatenated programs)
const APPEND_PREFIX: &[u8] = b"\x02\x00\x01\x03\x00\x00\x00\x00\x00\x00\x00\x00\x00\x00\x00\x01\x00 an earlier image, 61 bytes long, that must stay";

pub struct Prepared {
    pub ast_json: String,
    pub reference: Vec<u8>,
}

pub fn prepare(spec: &ProgSpec) -> Result<Prepared, String> {
    let source = spec.source().ok_or("no source")?;
    let ast = vm::parse(&source)?;
    let program = vm::compile(&ast)?;
    let reference = vm::serialize_to_vec(&program)?;
    let ast_json = crate::ASTSerializer::JSON.serialize(&ast).map_err(|e| format!("{:#}", e))?;
    Ok(Prepared { ast_json, reference })
}

pub struct Ran {
    pub result: ChildResult,
    /// the bytes that ended up in the output object (None for /dev/full)
    pub produced: Option<Vec<u8>>,
}

pub fn run_case(case: &ProcCase, prep: &Prepared) -> Ran {
    let dir = scratch_dir();
    let input = case.input_name.as_str();
    std::fs::write(dir.join(input), &prep.ast_json).expect("write AST file");
    let mut args: Vec<&str> = vec!["compile"];
    let mut child;
    match case.sink {
        Sink::StdoutFile => {
            args.push(input);
            child = Child::new(case.profile, &args);
            child.stdout = Out::File("so.bc".into());
        }
        Sink::StdoutPipe => {
            args.push(input);
            child = Child::new(case.profile, &args);
            child.stdout = Out::Pipe;
        }
        Sink::DashOFile => {
            if case.stale > 0 && case.stale % 3 == 0 {
                // the output name is a symbolic link to an earlier, longer image kept elsewhere: it must be replaced through the link
                std::fs::create_dir_all(dir.join("images")).unwrap();
                std::fs::write(dir.join("images/build-1.bc"), vec![0xEEu8; prep.reference.len() + case.stale]).unwrap();
                let _ = std::os::unix::fs::symlink("images/build-1.bc", dir.join("of.bc"));
            } else if case.stale > 0 { std::fs::write(dir.join("of.bc"), vec![0xEEu8; prep.reference.len() + case.stale]).unwrap(); }
            args.extend([input, "-o", "of.bc"]);
            child = Child::new(case.profile, &args);
        }
        Sink::DashOFileOddSpelling => {
            std::fs::create_dir_all(dir.join("elsewhere/deep")).unwrap();
            let _ = std::os::unix::fs::symlink("elsewhere/deep", dir.join("lnk"));
            args.extend([input, "-o", if case.stale % 2 == 0 { "lnk/../OF.BC" } else { "OF.Bc" }]);
            child = Child::new(case.profile, &args);
        }
        Sink::DashODir => {
            std::fs::create_dir_all(dir.join("outdir")).unwrap();
            if case.stale > 0 {
                // the name the tool derives today: the input's file name with its last extension replaced
                let derived = std::path::Path::new(input).with_extension("bc");
                std::fs::write(dir.join("outdir").join(derived), vec![0xEEu8; prep.reference.len() + case.stale]).unwrap();
            }
            args.extend([input, "-o", "outdir"]);
            child = Child::new(case.profile, &args);
        }
        Sink::StdinToStdout => {
            args.extend(["--input-format", "json"]);
            child = Child::new(case.profile, &args);
            child.stdin = In::File(input.to_string());
        }
        Sink::StdoutDevFull => {
            args.push(input);
            child = Child::new(case.profile, &args);
            child.stdout = Out::DevFull;
        }
        Sink::DashODevStdout => {
            args.extend([input, "-o", "/dev/stdout"]);
            child = Child::new(case.profile, &args);
            child.stdout = Out::Pipe;
        }
        Sink::DashOFileWhileAnotherInvocationFails => {
            args.extend(["--input-format", "json", "-o", "of.bc"]);
            child = Child::new(case.profile, &args);
        }
        Sink::DashOFileTwoScheduledInvocations | Sink::DashOFileWhileAnotherLiveInvocationIsKilled => {
            args.extend([input, "-o", "of.bc"]);
            child = Child::new(case.profile, &args);
        }
        Sink::StdoutAppendedToFile => {
            args.push(input);
            child = Child::new(case.profile, &args);
            std::fs::write(dir.join("lib.bc"), APPEND_PREFIX).unwrap();
            child.stdout = Out::FileAppend("lib.bc".into());
        }
        Sink::DashODevFull => {
            args.extend([input, "-o", "/dev/full"]);
            child = Child::new(case.profile, &args);
        }
    }
    child.shim = Some(ShimCfg {
        seed: case.hash_seed,
        plan: case.plan.clone(),
        clock: None,
        junk: 0,
        budget: Some(8 * prep.reference.len() as u64 + 20_000),
        ..Default::default()
    });
    let result = if case.sink == Sink::DashOFileWhileAnotherLiveInvocationIsKilled {
        let choices: Vec<u8> = case.sched.bytes().map(|b| b - b'0').collect();
        let mut doomed = child.clone();
        doomed.shim = Some(ShimCfg { seed: case.hash_seed ^ 7, plan: format!("f:0:K:{}", 1 + case.stale % 60), ..Default::default() });
        // A = the doomed one (the schedule starts with '0': it opens the output first), B = the invocation under test
        super::proc::run_scheduled_pair(&dir, &doomed, &child, "openw,writef,rename,flock", &choices).1
    } else if case.sink == Sink::DashOFileTwoScheduledInvocations {
        let choices: Vec<u8> = case.sched.bytes().map(|b| b - b'0').collect();
        let (ra, rb, _log) = super::proc::run_scheduled_pair(&dir, &child, &child, "openw,writef,rename,flock", &choices);
        // both succeed: either stands for the pair; exactly one fails cleanly (refusing to write what another live invocation is
        // writing is legitimate): the successful one is judged — exit 0 still means the file is the image
        match (ra.exit.is_success(), rb.exit.is_success()) { (true, false) if rb.exit.is_clean_failure() => ra, (false, true) if ra.exit.is_clean_failure() => rb, (true, true) => rb, _ => ra }
    } else if case.sink == Sink::DashOFileWhileAnotherInvocationFails {
        std::fs::write(dir.join("bad.json"), "{\"Top\": [{\"Integer\": ").unwrap();
        let mut other = Child::new(case.profile, &["compile", "bad.json", "-o", "of.bc"]);
        other.shim = Some(ShimCfg { seed: case.hash_seed ^ 1, ..Default::default() });
        super::proc::run_second_while_first_waits_for_input(&dir, &child, prep.ast_json.as_bytes(), &other).0
    } else {
        run_child(&dir, &child)
    };
    let produced = match case.sink {
        Sink::StdoutFile | Sink::StdoutPipe | Sink::StdinToStdout | Sink::DashODevStdout => Some(result.stdout.clone()),
        Sink::DashOFile | Sink::DashOFileWhileAnotherInvocationFails | Sink::DashOFileTwoScheduledInvocations | Sink::DashOFileWhileAnotherLiveInvocationIsKilled => std::fs::read(dir.join("of.bc")).ok(),
        Sink::DashOFileOddSpelling => std::fs::read(dir.join(if case.stale % 2 == 0 { "lnk/../OF.BC" } else { "OF.Bc" })).ok(),
        Sink::StdoutAppendedToFile => std::fs::read(dir.join("lib.bc")).ok().map(|b| if b.starts_with(APPEND_PREFIX) { b[APPEND_PREFIX.len()..].to_vec() } else { let mut x = b"<the prefix that was in the file is gone> ".to_vec(); x.extend_from_slice(&b); x }),
        Sink::DashODir => {
            // the derived name is the tool's business: exactly one file of the directory must be new or changed
            // (a stale file that the tool did not choose as its output is simply left alone)
            let stale_image = vec![0xEEu8; prep.reference.len() + case.stale];
            let mut touched: Vec<Vec<u8>> = Vec::new();
            if let Ok(rd) = std::fs::read_dir(dir.join("outdir")) {
                for e in rd.filter_map(|e| e.ok()) {
                    let bytes = std::fs::read(e.path()).unwrap_or_default();
                    if !(case.stale > 0 && bytes == stale_image) { touched.push(bytes); }
                }
            }
            if touched.len() == 1 { touched.pop() } else { None }
        }
        Sink::StdoutDevFull | Sink::DashODevFull => None,
    };
    let _ = std::fs::remove_dir_all(&dir);
    Ran { result, produced }
}

pub fn judge(case: &ProcCase, prep: &Prepared, ran: &Ran) -> Option<(String, String)> {
    let r = &ran.result;
    if r.exit.is_native_crash() {
        return Some(("O3:compile_died_by_signal".into(), format!("{} writing to {}", r.exit.show(), case.sink.name())));
    }
    if r.exit == Exit::Timeout || r.budget_exceeded() {
        return Some(("O4:no_progress_within_call_budget".into(), format!("{} on {} with plan `{}`", r.exit.show(), case.sink.name(), case.plan)));
    }
    let dev_full = matches!(case.sink, Sink::StdoutDevFull | Sink::DashODevFull);
    let hard_fired = dev_full || (case.plan_is_hard() && r.trace.lines().any(|l| l.starts_with(&format!("W {} ", case.sink.class())) && l.contains("-> E")));
    if hard_fired {
        if r.exit.is_success() {
            return Some((
                "O3:hard_error_not_reported".into(),
                format!("output fd failed ({}; plan `{}`) but `fml compile` exited 0", case.sink.name(), case.plan),
            ));
        }
        return None;
    }
    if r.exit.is_success() {
        match &ran.produced {
            Some(bytes) if bytes == &prep.reference => None,
            Some(bytes) => {
                let at = first_difference(bytes, &prep.reference).unwrap_or(0);
                Some((
                    "O3:exit_0_but_file_differs".into(),
                    format!("{} plan `{}`: exit 0, {} bytes produced, {} expected, first difference at offset {}", case.sink.name(), case.plan, bytes.len(), prep.reference.len(), at),
                ))
            }
            None => Some(("O3:exit_0_but_no_file".into(), format!("{}: exit 0 and no output file", case.sink.name()))),
        }
    } else if case.plan.is_empty() {
        // no fault at all and the same AST compiles in-process: the stage refused / failed on a benign sink
        Some((
            "O0:compile_failed_on_benign_sink".into(),
            format!("{}: {} with no injected fault; stderr: {}", case.sink.name(), r.exit.show(), r.stderr_first_line_masked()),
        ))
    } else {
        None // transient fault reported as an error: allowed by the property
    }
}

/// The fault-free `-o FILE` run decides whether the compile stage accepts this AST at all; a stage
/// that refuses its input on every sink is C06's subject, not C08's.
fn baseline_accepts(case: &ProcCase, prep: &Prepared) -> bool {
    let base = ProcCase { sink: Sink::DashOFile, plan: String::new(), stale: 0, ..case.clone() };
    let ran = run_case(&base, prep);
    ran.result.exit.is_success() || ran.result.exit.is_native_crash()
}

pub fn replay_case(case: &ProcCase) -> Result<Option<(String, String)>, String> {
    let prep = prepare(&case.spec)?;
    if !baseline_accepts(case, &prep) {
        return Ok(None);
    }
    let ran = run_case(case, &prep);
    Ok(judge(case, &prep, &ran))
}

fn minimise(case: &ProcCase, oracle: &str) -> ProcCase {
    let class = oracle.split(':').next().unwrap_or("").to_string();
    let still = |c: &ProcCase| matches!(replay_case(c), Ok(Some((o, _))) if o.split(':').next().unwrap_or("") == class);
    let mut best = case.clone();
    if let ProgSpec::Stmts(stmts) = &best.spec {
        let mut stmts = stmts.clone();
        let mut j = stmts.len();
        while j > 0 {
            j -= 1;
            if stmts.len() <= 1 { break; }
            let mut cand = stmts.clone();
            cand.remove(j);
            let mut c = best.clone();
            c.spec = ProgSpec::Stmts(cand.clone());
            if still(&c) { stmts = cand; best = c; }
        }
    }
    if best.profile != Profile::Debug {
        let mut c = best.clone();
        c.profile = Profile::Debug;
        if still(&c) { best = c; }
    }
    if best.stale > 1 {
        let mut c = best.clone();
        c.stale = 1;
        if still(&c) { best = c; }
    }
    best
}

struct Out1 {
    evaluations: u64,
    distinct: Vec<u64>,
    fired_short: u64,
    fired_eintr: u64,
    fired_hard: u64,
    violations: Vec<(ProcCase, String, String)>,
    sample: Option<Value>,
    skipped: bool,
}

fn exercise(spec: &ProgSpec, rng: &mut Rng, per_program_random: usize) -> Out1 {
    let mut out = Out1 { evaluations: 0, distinct: vec![], fired_short: 0, fired_eintr: 0, fired_hard: 0, violations: vec![], sample: None, skipped: false };
    let prep = match prepare(spec) {
        Ok(p) => p,
        Err(_) => { out.skipped = true; return out; }
    };
    let profile = if rng.coin() { Profile::Debug } else { Profile::Release };
    let hash_seed = rng.next_u64();
    let input_name: String = (*rng.pick(&["x.json", "x.json", "prog.v2.json", "my ast.json", "x.JSON", "дерево.json", "a.b.c.json"])).to_string();
    if !baseline_accepts(&ProcCase { spec: spec.clone(), profile, sink: Sink::DashOFile, plan: String::new(), stale: 0, input_name: input_name.clone(), hash_seed, sched: String::new() }, &prep) {
        out.evaluations += 1;
        out.skipped = true;
        return out;
    }
    let mut cases: Vec<ProcCase> = Vec::new();
    let mk = |sink: Sink, plan: String| ProcCase { spec: spec.clone(), profile, sink, plan, stale: 0, input_name: input_name.clone(), hash_seed, sched: String::new() };
    // fault-free variants: every documented way of getting the bytes out
    for s in [Sink::StdoutFile, Sink::StdoutPipe, Sink::DashOFile, Sink::DashODir, Sink::StdinToStdout, Sink::DashODevStdout, Sink::DashOFileWhileAnotherInvocationFails, Sink::StdoutAppendedToFile] {
        cases.push(mk(s, String::new()));
    }
    for k in 0..2 { let mut c = mk(Sink::DashOFileOddSpelling, String::new()); c.stale = k; cases.push(c); }
    // two live invocations of the same command: two decided interleavings per program
    for _ in 0..2 {
        let mut c = mk(Sink::DashOFileTwoScheduledInvocations, String::new());
        c.sched = (0..10).map(|_| if rng.coin() { '1' } else { '0' }).collect();
        cases.push(c);
    }
    {
        let mut c = mk(Sink::DashOFileWhileAnotherLiveInvocationIsKilled, String::new());
        c.sched = std::iter::once('0').chain((0..9).map(|_| if rng.coin() { '1' } else { '0' })).collect();
        cases.push(c);
    }
    // a burst of consecutive passing errors (a pipe that stays full for a while): giving up silently after n retries is not reporting
    {
        let sink = rng.pick(&[Sink::StdoutFile, Sink::StdoutPipe, Sink::DashOFile]).clone();
        let cls = sink.class();
        let at = rng.below(3);
        let plan: String = (0..14).map(|k| format!("{}:{}:y:11", cls, at + k)).collect::<Vec<_>>().join(";");
        cases.push(mk(sink, plan));
    }
    // durable state left by an earlier run: a longer stale file at the output path must be replaced, not overlaid
    for s in [Sink::DashOFile, Sink::DashODir] {
        let mut c = mk(s, String::new());
        c.stale = 1 + rng.usize_below(300);
        cases.push(c);
    }
    // every kind of hard error a sink can answer with, at the first write on stdout: ENOSPC, EIO, EPIPE (reader gone), EDQUOT, EFBIG
    for errno in [28u32, 5, 32, 122, 27] {
        cases.push(mk(if errno % 2 == 0 { Sink::StdoutPipe } else { Sink::StdoutFile }, format!("o:0:x:{}", errno)));
    }
    // kernel-provided hard fault
    cases.push(mk(Sink::StdoutDevFull, String::new()));
    cases.push(mk(Sink::DashODevFull, String::new()));
    // shim: per-call acceptance limits
    for _ in 0..per_program_random {
        let sink = rng.pick(&[Sink::StdoutFile, Sink::StdoutPipe, Sink::DashOFile, Sink::DashODir, Sink::DashOFile, Sink::DashODir, Sink::DashODevStdout]).clone();
        let cls = sink.class();
        let plan = match rng.below(8) {
            // a one-off error (EAGAIN on a non-blocking pipe, ETIMEDOUT, a passing EIO), alone or while a request is being taken piecewise
            6 => format!("{}:{}:y:{}", cls, rng.below(4), rng.pick(&[11u32, 11, 110, 5])),
            7 => if rng.coin() { format!("{c}:*:l:{k};{c}:{j}:y:{e}", c = cls, k = rng.pick(&[1u32, 3, 64, 1024, 4096]), j = 1 + rng.below(40), e = rng.pick(&[11u32, 11, 110, 5])) }
                 // a filling disk: one call is accepted in part, the next one fails for good (ENOSPC, EFBIG, EDQUOT) — at the first calls, where small images have their only write
                 else { let at = rng.below(3); format!("{c}:{a}:s:{n};{c}:{b}:x:{e}", c = cls, a = at, n = rng.pick(&[1u32, 10, 100, 1000, 4000]), b = at + 1, e = rng.pick(&[28u32, 27, 122])) },
            0 | 1 => format!("{}:*:l:{}", cls, rng.pick(&[1u32, 2, 3, 7, 64, 1023, 1024, 1025, 4096])),
            2 => format!("{}:{}:s:{}", cls, rng.below(4), 1 + rng.below(5)),
            3 => format!("{}:{}:e:0", cls, rng.below(4)),
            4 => format!("{}:{}:x:{}", cls, rng.below(3), rng.pick(&[28u32, 5, 32, 122, 27])),
            _ => format!("{}:{}:b:0;{}:{}:e:0", cls, rng.below(3), cls, 1 + rng.below(3)),
        };
        cases.push(mk(sink, plan));
    }
    for case in cases {
        let ran = run_case(&case, &prep);
        out.evaluations += 1;
        let t = &ran.result.trace;
        let cls = case.sink.class();
        let short = t.lines().filter(|l| l.starts_with(&format!("W {} ", cls)) && l.ends_with("short")).count() as u64;
        let eintr = t.lines().filter(|l| l.starts_with(&format!("W {} ", cls)) && l.ends_with("-> E4")).count() as u64;
        let hard = t.lines().filter(|l| l.starts_with(&format!("W {} ", cls)) && l.contains("-> E") && !l.ends_with("-> E4")).count() as u64
            + if matches!(case.sink, Sink::StdoutDevFull | Sink::DashODevFull) { 1 } else { 0 };
        out.fired_short += short;
        out.fired_eintr += eintr;
        out.fired_hard += hard;
        if short + eintr + hard > 0 || case.stale > 0 {
            out.distinct.push(digest_of(&(super::util::digest_bytes(&prep.reference), case.sink.name(), &case.plan, case.profile)));
        }
        if let Some((o, d)) = judge(&case, &prep, &ran) {
            out.violations.push((case.clone(), o, d));
        }
        if out.sample.is_none() && short + eintr + hard > 0 && rng.below(6) == 0 {
            out.sample = Some(json!({"engine": ENGINE_B, "program_brief": spec.brief(), "image_bytes": prep.reference.len(), "profile": case.profile.name(),
                "sink": case.sink.name(), "plan": case.plan, "exit": ran.result.exit.show(), "produced_bytes": ran.produced.as_ref().map(|b| b.len()),
                "trace_tail": t.lines().rev().take(4).collect::<Vec<_>>()}));
        }
    }
    out
}

pub fn run_layer_b(seed: u64, tier: &str, ev: &mut Evidence) -> Vec<Violation> {
    let (n_programs, per_program_random) = if tier == "thorough" { (30_000usize, 12usize) } else { (300, 5) };
    let mut specs: Vec<ProgSpec> = work::corpus_specs().into_iter().filter(|(_, s)| s.source().is_some()).map(|(_, s)| s).collect();
    specs.extend(work::scale_templates().into_iter().map(|(_, s)| ProgSpec::Source(s)));
    let base = specs.len();
    for j in 0..n_programs {
        let mut rng = Rng::for_case(seed, "C08", "workload-b", j as u64);
        let mut cfg = GenCfg::swarm(&mut rng);
        if rng.below(3) == 0 { cfg.strings = StrRegime::Long; }
        if cfg.strings == StrRegime::Long { cfg.stmts = cfg.stmts.min(6); }
        specs.push(work::gen_source_spec(&mut rng, &cfg).0);
    }
    let outs: Vec<Out1> = par_map(specs.len(), |i| {
        let mut rng = Rng::for_case(seed, "C08", ENGINE_B, i as u64);
        exercise(&specs[i], &mut rng, if i < base { 2 } else { per_program_random })
    });
    let mut raw = Vec::new();
    let (mut short, mut eintr, mut hard, mut children, mut skipped) = (0u64, 0u64, 0u64, 0u64, 0u64);
    for o in outs {
        ev.evaluations += o.evaluations;
        children += o.evaluations;
        for d in o.distinct { ev.distinct.insert(d); }
        short += o.fired_short;
        eintr += o.fired_eintr;
        hard += o.fired_hard;
        if o.skipped { skipped += 1; }
        if let Some(s) = o.sample { ev.sample(s); }
        raw.extend(o.violations);
    }
    ev.extra.insert("layer_b_children".into(), json!(children));
    ev.extra.insert("layer_b_programs_skipped_not_compilable_or_refused_by_compile_stage".into(), json!(skipped));
    ev.extra.insert("layer_b_fault_kinds_fired".into(), json!({"short_write": short, "eintr": eintr, "hard_error_or_dev_full": hard}));
    let mut seen: Vec<String> = Vec::new();
    let mut violations = Vec::new();
    for (case, oracle, detail) in raw {
        let hardness = if case.plan_is_hard() || matches!(case.sink, Sink::StdoutDevFull | Sink::DashODevFull) { "hard" } else { "transient_or_none" };
        let key = format!("{}|{}|{}", oracle, case.sink.class(), hardness);
        if seen.contains(&key) { continue; }
        seen.push(key);
        let small = minimise(&case, &oracle);
        let (c, o, d) = match replay_case(&small) {
            Ok(Some((o2, d2))) => (small, o2, d2),
            _ => (case, oracle, detail),
        };
        violations.push(Violation {
            property: "C08".into(),
            oracle: o.clone(),
            detail: d,
            signature: json!({"engine": ENGINE_B, "oracle": o, "sink": c.sink.name(), "fault": hardness}),
            replay: c.to_json(),
        });
    }
    violations
}

pub fn replay(v: &Value) -> Result<Option<(String, String)>, String> {
    let case = ProcCase::from_json(v).ok_or("malformed process-sim replay")?;
    replay_case(&case)
}
