//! Layer A stream simulation: the real `Program::serialize` writing through real std adaptors
//! (and FML's own NamedSink) into a simulated fd under a fault plan; the real loader reading from a
//! simulated source under a chunking plan.

use serde_json::{json, Value};
use std::io::{BufWriter, LineWriter, Write};

use crate::bytecode::program::Program;
use crate::bytecode::serializable::Serializable;

use super::simio::{FiredCounts, ReadPlan, SimFd, SimSource, WritePlan};
use super::util::catch;

#[derive(Clone, Copy, Debug, PartialEq, Eq, Hash)]
pub enum Stack {
    /// the simulated fd itself (an unbuffered file / raw pipe end)
    Raw,
    /// std BufWriter, default capacity — what `-o FILE` is
    Buf,
    /// std BufWriter with a small capacity (knob randomisation: makes the bypass path common)
    BufSmall(usize),
    /// std LineWriter, default capacity — what `std::io::stdout()` is
    Line,
    /// Box<dyn Write> over BufWriter<fd> — the shape of the shipped `-o FILE` sink (FML's NamedSink forwards write/flush to
    /// exactly such a box; the struct itself is private CLI plumbing and is exercised for real at the process level)
    BoxedBuf,
    /// Box<dyn Write> over LineWriter<fd> — the shape of the shipped stdout sink
    BoxedLine,
}

impl Stack {
    pub fn name(&self) -> String {
        match self {
            Stack::Raw => "raw_fd".into(),
            Stack::Buf => "BufWriter".into(),
            Stack::BufSmall(n) => format!("BufWriter:{}", n),
            Stack::Line => "LineWriter".into(),
            Stack::BoxedBuf => "Box<dyn Write>(BufWriter)".into(),
            Stack::BoxedLine => "Box<dyn Write>(LineWriter)".into(),
        }
    }
    pub fn from_name(s: &str) -> Option<Stack> {
        Some(match s {
            "raw_fd" => Stack::Raw,
            "BufWriter" => Stack::Buf,
            "LineWriter" => Stack::Line,
            "Box<dyn Write>(BufWriter)" | "NamedSink(BufWriter)" => Stack::BoxedBuf,
            "Box<dyn Write>(LineWriter)" | "NamedSink(LineWriter)" => Stack::BoxedLine,
            other => {
                let n = other.strip_prefix("BufWriter:")?.parse().ok()?;
                Stack::BufSmall(n)
            }
        })
    }
    pub const ALL: [Stack; 6] = [Stack::Raw, Stack::Buf, Stack::BufSmall(16), Stack::Line, Stack::BoxedBuf, Stack::BoxedLine];
}

#[derive(Clone, Copy, Debug, PartialEq, Eq, Hash)]
pub enum Teardown {
    /// explicit flush(), result checked, then drop
    FlushChecked,
    /// drop only — what the CLI does today; errors in Drop are invisible by std's design
    DropOnly,
}

impl Teardown {
    pub fn name(&self) -> &'static str {
        match self {
            Teardown::FlushChecked => "flush_checked",
            Teardown::DropOnly => "drop_only",
        }
    }
    pub fn from_name(s: &str) -> Option<Teardown> {
        match s {
            "flush_checked" => Some(Teardown::FlushChecked),
            "drop_only" => Some(Teardown::DropOnly),
            _ => None,
        }
    }
}

#[derive(Debug)]
pub struct WriteOutcome {
    /// Ok, Err(message) or Err("panic: …") from `serialize`
    pub serialize: Result<(), String>,
    pub teardown: Result<(), String>,
    pub received: Vec<u8>,
    pub write_calls: usize,
    pub fired: FiredCounts,
    pub budget_exceeded: bool,
    pub fault_offsets: Vec<(usize, &'static str)>,
    pub log: Vec<(usize, usize, i64)>,
}

fn do_serialize<W: Write>(program: &Program, w: &mut W) -> Result<(), String> {
    match catch(|| program.serialize(w).map_err(|e| format!("{:#}", e))) {
        Ok(r) => r,
        Err(p) => Err(format!("panic: {}", p)),
    }
}

fn finish<W: Write>(mut w: W, teardown: Teardown) -> Result<(), String> {
    match teardown {
        Teardown::FlushChecked => {
            let r = w.flush().map_err(|e| e.to_string());
            drop(w);
            r
        }
        Teardown::DropOnly => {
            drop(w);
            Ok(())
        }
    }
}

pub fn write_under_plan(program: &Program, stack: Stack, teardown: Teardown, plan: &WritePlan, budget: usize, keep_log: bool) -> WriteOutcome {
    let fd = SimFd::new(plan.clone(), budget);
    let fd = if keep_log { fd.keep_log() } else { fd };
    let (serialize, td) = match stack {
        Stack::Raw => {
            let mut w = fd.clone();
            let s = do_serialize(program, &mut w);
            (s, finish(w, teardown))
        }
        Stack::Buf => {
            let mut w = BufWriter::new(fd.clone());
            let s = do_serialize(program, &mut w);
            (s, finish(w, teardown))
        }
        Stack::BufSmall(n) => {
            let mut w = BufWriter::with_capacity(n, fd.clone());
            let s = do_serialize(program, &mut w);
            (s, finish(w, teardown))
        }
        Stack::Line => {
            let mut w = LineWriter::new(fd.clone());
            let s = do_serialize(program, &mut w);
            (s, finish(w, teardown))
        }
        Stack::BoxedBuf => {
            let mut w: Box<dyn Write> = Box::new(BufWriter::new(fd.clone()));
            let s = do_serialize(program, &mut w);
            (s, finish(w, teardown))
        }
        Stack::BoxedLine => {
            let mut w: Box<dyn Write> = Box::new(LineWriter::new(fd.clone()));
            let s = do_serialize(program, &mut w);
            (s, finish(w, teardown))
        }
    };
    let st = fd.0.borrow();
    WriteOutcome {
        serialize,
        teardown: td,
        received: st.received.clone(),
        write_calls: st.write_calls,
        fired: st.fired.clone(),
        budget_exceeded: st.budget_exceeded,
        fault_offsets: st.fault_offsets.clone(),
        log: st.log.clone(),
    }
}

#[derive(Debug)]
pub struct ReadOutcome {
    pub program: Result<Program, String>,
    pub consumed: usize,
    pub calls: usize,
    pub budget_exceeded: bool,
    pub fired: u64,
    pub eintr: u64,
    pub hard: u64,
    pub cut_offsets: Vec<usize>,
}

/// How the loader is fed: directly from the simulated source, or through a std BufReader of the
/// given capacity (the CLI uses BufReader<File>/BufReader<Stdin>, capacity 8192).
#[derive(Clone, Copy, Debug, PartialEq, Eq, Hash)]
pub enum ReadStack {
    Raw,
    BufReader(usize),
}

impl ReadStack {
    pub fn to_json(&self) -> Value {
        match self {
            ReadStack::Raw => json!("raw_source"),
            ReadStack::BufReader(n) => json!({"BufReader": n}),
        }
    }
    pub fn from_json(v: &Value) -> Option<ReadStack> {
        if v.as_str() == Some("raw_source") {
            return Some(ReadStack::Raw);
        }
        v.get("BufReader").and_then(|n| n.as_u64()).map(|n| ReadStack::BufReader(n as usize))
    }
}

pub fn read_under_plan(image: &[u8], stack: ReadStack, plan: &ReadPlan, budget: usize) -> ReadOutcome {
    let mut src = SimSource::new(image, plan.clone(), budget);
    let program = match stack {
        ReadStack::Raw => catch(|| Program::from_bytes(&mut src)),
        ReadStack::BufReader(cap) => catch(|| {
            let mut r = std::io::BufReader::with_capacity(cap.max(1), &mut src);
            Program::from_bytes(&mut r)
        }),
    };
    ReadOutcome {
        program: program.map_err(|p| format!("panic: {}", p)),
        consumed: src.pos,
        calls: src.calls,
        budget_exceeded: src.budget_exceeded,
        fired: src.short_fired + src.chunk_fired,
        eintr: src.eintr_fired,
        hard: src.hard_fired,
        cut_offsets: src.cut_offsets.clone(),
    }
}
