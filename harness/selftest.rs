//! Determinism proof of the simulator itself (DESIGN §3.6): `fml verif selftest-digest` prints one
//! digest line per case; the check script runs it in separate processes (twice at 16 workers, once
//! at 1 worker) and diffs the outputs. A digest covers everything a verdict could depend on: outcome
//! records for layer A; exit status, stdout, heap log (with its scripted timestamps) and the complete
//! shim trace (every intercepted call, plus stack/heap addresses) for layer B.

use super::c08;
use super::c11;
use super::cycle;
use super::gen::GenCfg;
use super::proc::{run_child, scratch_dir, Child, In, Profile, ShimCfg};
use super::simio::random_write_plan;
use super::stream::{write_under_plan, Stack, Teardown};
use super::util::{digest_bytes, digest_of, hex64, par_map, Rng};
use super::vm;
use super::work;

pub fn digests(seed: u64, n: usize) -> Vec<String> {
    let mut lines = Vec::new();
    // ---- layer A: stream simulator ------------------------------------------------------------
    let a: Vec<u64> = par_map(n, |i| {
        let mut rng = Rng::for_case(seed, "selftest", "stream", i as u64);
        let cfg = GenCfg::swarm(&mut rng);
        let (spec, _) = work::gen_source_spec(&mut rng, &cfg);
        let program = match spec.build() { Ok(p) => p, Err(e) => return digest_bytes(e.as_bytes()) };
        let reference = vm::serialize_to_vec(&program).unwrap_or_default();
        let mut acc: Vec<u64> = vec![digest_bytes(&reference)];
        for _ in 0..8 {
            let stack = *rng.pick(&Stack::ALL);
            let plan = random_write_plan(&mut rng, reference.len() / 3 + 4, true);
            let td = if rng.coin() { Teardown::FlushChecked } else { Teardown::DropOnly };
            let o = write_under_plan(&program, stack, td, &plan, c08::budget_for(reference.len(), reference.len(), &plan), true);
            acc.push(digest_of(&(o.serialize.is_ok(), o.teardown.is_ok(), &o.received, o.write_calls, &o.log, o.budget_exceeded)));
        }
        // one full cycle, too
        let b = cycle::build(&spec);
        if let Ok(b) = b {
            let case = cycle::CycleCase { which: cycle::Which::C03, spec: spec.clone(), wstack: Stack::Line, wplan: super::simio::WritePlan::limit(3), writer: "fml",
                rstack: super::stream::ReadStack::BufReader(5), rplan: super::simio::random_read_plan(&mut rng, b.reference.len()), execute: true, nointern: None };
            let v = cycle::run_cycle(&case, &b, &mut cycle::Probe::default());
            acc.push(digest_of(&v));
            if let Some(r) = &b.original_run { acc.push(digest_of(&(&r.output, r.steps, r.end.class(), &r.heap))); }
        }
        digest_of(&acc)
    });
    for (i, d) in a.iter().enumerate() { lines.push(format!("A {} {}", i, hex64(*d))); }
    // ---- layer B: whole-process simulator -----------------------------------------------------
    let b: Vec<u64> = par_map(n, |i| {
        let mut rng = Rng::for_case(seed, "selftest", "process", i as u64);
        let mut cfg = GenCfg::small(&mut rng);
        cfg.f_objects = true;
        cfg.f_arrays = true;
        let (spec, _) = work::gen_source_spec(&mut rng, &cfg);
        if work::builds(&spec) && work::qualify(&spec, 100_000).is_none() { return 0; }
        let source = spec.source().unwrap_or_default();
        let mut t = c11::Tuple::random(&mut rng);
        t.aslr = false; // the uncontrolled witness is excluded from the determinism proof by definition
        let dir = scratch_dir();
        std::fs::write(dir.join("x.fml"), &source).unwrap();
        let plan = match rng.below(7) { 4 => format!("o:{}:x:{}", rng.below(3), rng.pick(&[28u32, 32, 5])), 5 => format!("o:*:l:3;o:{}:y:11;f:{}:y:5", 1 + rng.below(5), rng.below(3)), 6 => format!("r:{a}:y:5;i:{a}:x:5;f:{b}:s:1;f:{c}:x:28", a = rng.below(2), b = rng.below(2), c = 2 + rng.below(3)), 0 => "o:*:l:2;f:*:l:3;r:*:l:5".to_string(), 1 => format!("o:{}:e:0;r:0:s:1;i:0:s:1;f:1:b:0", rng.below(3)), 2 => "i:*:l:1".to_string(), _ => String::new() };
        let mut c = if t.via_stdin { Child::new(t.profile, &["run", "--heap-log", "h.csv", "--heap-size", "3"]) } else { Child::new(t.profile, &["run", "x.fml", "--heap-log", "h.csv"]) };
        if t.via_stdin { c.stdin = In::File("x.fml".into()); }
        c.env = t.env.clone();
        c.argv0 = t.argv0.clone();
        c.shim = Some(ShimCfg { seed: t.hash_seed, plan, clock: t.clock.clone().or(Some("1700000000000000000:1000".into())), junk: t.junk, budget: None, ..Default::default() });
        let r = run_child(&dir, &c);
        let log = std::fs::read(dir.join("h.csv")).unwrap_or_default();
        // every eighth case: the cooperative scheduler itself — two live compiles of the same AST into one file under a seeded
        // schedule; the sequence of released events, both exits and the file must be the same in every process and at every worker count
        let mut sched_digest = 0u64;
        if i % 8 == 0 {
            if let Some(json) = super::vm::parse(&source).ok().and_then(|a| crate::ASTSerializer::JSON.serialize(&a).ok()) {
                std::fs::write(dir.join("x.json"), json).unwrap();
                let mut k = Child::new(t.profile, &["compile", "x.json", "-o", "of.bc"]);
                k.shim = Some(ShimCfg { seed: t.hash_seed, ..Default::default() });
                let choices: Vec<u8> = (0..10).map(|_| rng.below(2) as u8).collect();
                let (ra, rb, order) = super::proc::run_scheduled_pair(&dir, &k, &k, "openw,writef,rename,flock,unlink", &choices);
                sched_digest = digest_of(&(order, ra.exit.show(), rb.exit.show(), std::fs::read(dir.join("of.bc")).unwrap_or_default()));
            }
        }
        let _ = std::fs::remove_dir_all(&dir);
        let _ = Profile::Debug;
        digest_of(&(r.exit.show(), &r.stdout, r.stderr.is_empty(), &log, &r.trace, sched_digest))
    });
    for (i, d) in b.iter().enumerate() { lines.push(format!("B {} {}", i, hex64(*d))); }
    lines
}
