//! C03 / C04, layer B: the save/load cycle end-to-end with the real binary. `fml compile -o x.bc`
//! (or the foreign node) writes the image; `fml execute x.bc`, `fml execute < x.bc` and
//! `fml disassemble x.bc` load it with short reads, per-call limits and EINTR injected on the input fd.

use serde_json::{json, Value};

use super::foreign;
use super::gen::GenCfg;
use super::proc::{run_child, scratch_dir, Child, Exit, In, Profile, ShimCfg};
use super::report::{Evidence, Violation};
use super::util::{digest_bytes, digest_of, first_difference, par_map, Rng};
use super::vm;
use super::work::{self, ProgSpec};

pub const ENGINE: &str = "process-sim:load-cycle";

#[derive(Clone, Debug)]
pub struct Case {
    pub property: String,
    pub spec: ProgSpec,
    pub profile: Profile,
    /// who writes the image: "fml" (`fml compile -o`) or "foreign" (independent encoder)
    pub writer: String,
    /// "execute" | "disassemble"
    pub action: String,
    pub via_stdin: bool,
    /// shim plan on the input fd (transient only)
    pub plan: String,
    /// how `fml compile` hands over the image: "-o FILE" | "stdout>file" | "stdout|pipe"
    pub save_channel: String,
    /// shim plan on the compile stage's output fd (transient only); a reported error means no image, no claim
    pub save_plan: String,
    /// a stale, longer file already sits at the `-o` path before the save (durable state of an earlier run)
    pub stale: bool,
    pub hash_seed: u64,
    /// the image is named as a PATH that is not a regular file: `/dev/stdin` backed by a pipe the harness feeds (a FIFO, a
    /// `<(...)` substitution, `gen | fml execute /dev/stdin` look the same to the tool: st_size 0, not seekable)
    pub dev_stdin_pipe: bool,
    /// environment block of every child (locale, RUST_LOG, DEBUG, ...): no image and no load may depend on it
    pub env: Vec<(String, String)>,
    /// `action < file` with the file positioned past a prefix of this many bytes (another image stored in front of this one,
    /// or a reader before us consumed it): the load starts where stdin stands, not at byte 0 of whatever file is behind it
    pub stdin_offset: usize,
    /// Some(schedule): the save runs as two live invocations of the same `fml compile … -o x.bc` under the cooperative scheduler
    pub overlap_save: Option<String>,
    /// Some(schedule): the load (`fml execute` with the image on stdin) runs while ANOTHER `fml execute` with another program on
    /// its stdin is alive, under the cooperative scheduler (they announce before opening anything for writing and before writes
    /// to files): whatever scratch the tool uses, each must run its own program
    pub overlap_load: Option<String>,
    /// how the `-o FILE` of the save is spelled: 0 `x.bc`; 1 `X.BC` (upper-case extension); 2 `lnk/../x2.bc` through a symbolic link to
    /// a directory elsewhere; 3 `x.bc` is a symbolic link to a longer earlier image kept in a store. The load reads the name as given.
    pub save_name_style: u8,
}

impl Case {
    pub fn to_json(&self) -> Value {
        json!({"engine": ENGINE, "property": self.property, "program": self.spec.to_json(), "profile": self.profile.name(), "writer": self.writer,
               "action": self.action, "via_stdin": self.via_stdin, "plan": self.plan, "save_channel": self.save_channel, "save_plan": self.save_plan, "stale": self.stale, "hash_seed": self.hash_seed, "dev_stdin_pipe": self.dev_stdin_pipe, "env": self.env, "stdin_offset": self.stdin_offset, "overlap_save": self.overlap_save, "overlap_load": self.overlap_load, "save_name_style": self.save_name_style})
    }
    pub fn from_json(v: &Value) -> Option<Case> {
        Some(Case {
            property: v.get("property")?.as_str()?.to_string(),
            spec: ProgSpec::from_json(v.get("program")?)?,
            profile: Profile::from_name(v.get("profile")?.as_str()?)?,
            writer: v.get("writer")?.as_str()?.to_string(),
            action: v.get("action")?.as_str()?.to_string(),
            via_stdin: v.get("via_stdin")?.as_bool()?,
            plan: v.get("plan")?.as_str()?.to_string(),
            save_channel: v.get("save_channel").and_then(|x| x.as_str()).unwrap_or("-o FILE").to_string(),
            save_plan: v.get("save_plan").and_then(|x| x.as_str()).unwrap_or("").to_string(),
            stale: v.get("stale").and_then(|x| x.as_bool()).unwrap_or(false),
            hash_seed: v.get("hash_seed")?.as_u64()?,
            dev_stdin_pipe: v.get("dev_stdin_pipe").and_then(|x| x.as_bool()).unwrap_or(false),
            env: v.get("env").and_then(|e| e.as_array()).map(|a| a.iter().filter_map(|e| Some((e.get(0)?.as_str()?.to_string(), e.get(1)?.as_str()?.to_string()))).collect()).unwrap_or_default(),
            stdin_offset: v.get("stdin_offset").and_then(|x| x.as_u64()).unwrap_or(0) as usize,
            overlap_save: v.get("overlap_save").and_then(|x| x.as_str()).map(|s| s.to_string()),
            overlap_load: v.get("overlap_load").and_then(|x| x.as_str()).map(|s| s.to_string()),
            save_name_style: v.get("save_name_style").and_then(|x| x.as_u64()).unwrap_or(0) as u8,
        })
    }
}

pub struct Obs {
    pub children: u64,
    pub faults_fired: u64,
    pub hard_fired: u64,
}

pub fn check(case: &Case) -> Result<Option<Obs>, (String, String)> {
    if let ProgSpec::Model(m) = &case.spec { return check_model_image(case, m); }
    let source = match case.spec.source() { Some(s) => s, None => return Ok(None) };
    let ast = match vm::parse(&source) { Ok(a) => a, Err(_) => return Ok(None) };
    let program = match vm::compile(&ast) { Ok(p) => p, Err(_) => return Ok(None) };
    let model = match foreign::model_of(&program) { Ok(m) => m, Err(_) => return Ok(None) };
    if work::qualify(&case.spec, 1_500_000).is_none() { return Ok(None); }
    let dir = scratch_dir();
    let mut children = 0u64;
    let cleanup = |d: &std::path::Path| { let _ = std::fs::remove_dir_all(d); };
    std::fs::write(dir.join("x.fml"), &source).unwrap();
    // the reference behaviour: run, same profile, no faults
    let mut c = Child::new(case.profile, &["run", "x.fml"]);
    c.shim = Some(ShimCfg { seed: case.hash_seed, ..Default::default() });
    let direct = run_child(&dir, &c);
    children += 1;
    if direct.exit == Exit::Timeout { cleanup(&dir); return Ok(None); }
    // save
    if case.writer == "foreign" {
        std::fs::write(dir.join("x.bc"), foreign::encode(&model)).unwrap();
    } else {
        let json = match crate::ASTSerializer::JSON.serialize(&ast) { Ok(j) => j, Err(_) => { cleanup(&dir); return Ok(None); } };
        std::fs::write(dir.join("x.json"), json).unwrap();
        if case.stale && case.save_channel == "-o FILE" {
            let old = vm::serialize_to_vec(&program).unwrap_or_default();
            let mut junk = old.clone();
            junk.extend_from_slice(&old);
            junk.extend_from_slice(b"stale tail of an earlier, longer image");
            std::fs::write(dir.join("x.bc"), junk).unwrap();
        }
        let other_image = foreign::encode(&foreign::boundary_pool_model(3));
        if case.save_channel == "-o DIR" {
            std::fs::create_dir_all(dir.join("outdir")).unwrap();
            // durable state of an earlier build: the image of ANOTHER program already sits under the name the tool derives today
            if case.stale { std::fs::write(dir.join("outdir").join("x.bc"), &other_image).unwrap(); }
        }
        let save_name: &str = match (case.save_channel.as_str(), case.save_name_style) { ("-o FILE", 1) => "X.BC", ("-o FILE", 2) => "lnk/../x2.bc", _ => "x.bc" };
        if case.save_channel == "-o FILE" && case.save_name_style == 2 { let _ = std::fs::create_dir_all(dir.join("elsewhere/deep")); let _ = std::os::unix::fs::symlink("elsewhere/deep", dir.join("lnk")); }
        if case.save_channel == "-o FILE" && case.save_name_style == 3 {
            let _ = std::fs::create_dir_all(dir.join("store"));
            let mut old = vm::serialize_to_vec(&program).unwrap_or_default(); let again = old.clone(); old.extend_from_slice(&again); old.extend_from_slice(b" tail of the earlier, longer image");
            std::fs::write(dir.join("store/build-1.bc"), old).unwrap();
            let _ = std::os::unix::fs::symlink("store/build-1.bc", dir.join("x.bc"));
        }
        let mut c = if case.save_channel == "-o FILE" { Child::new(case.profile, &["compile", "x.json", "-o", save_name]) } else if case.save_channel == "-o DIR" { Child::new(case.profile, &["compile", "x.json", "-o", "outdir"]) } else { Child::new(case.profile, &["compile", "x.json"]) };
        if case.save_channel == "stdout>file" { c.stdout = super::proc::Out::File("x.bc".into()); }
        c.env = case.env.clone();
        c.shim = Some(ShimCfg { seed: case.hash_seed, plan: case.save_plan.clone(), clock: None, junk: 0, budget: Some(4_000_000), ..Default::default() });
        let r = match (&case.overlap_save, case.save_channel.as_str()) {
            (Some(sched), "-o FILE") => {
                let choices: Vec<u8> = sched.bytes().map(|b| b.wrapping_sub(b'0')).collect();
                let (ra, rb, _) = super::proc::run_scheduled_pair(&dir, &c, &c, "openw,writef,rename,flock,unlink", &choices);
                children += 1;
                match (ra.exit.is_success(), rb.exit.is_success()) { (true, false) if rb.exit.is_clean_failure() => ra, (false, true) if ra.exit.is_clean_failure() => rb, (true, true) => rb, _ => ra }
            }
            _ => run_child(&dir, &c),
        };
        children += 1;
        if !r.exit.is_success() { cleanup(&dir); return Ok(None); } // stage refusal (C06's subject) or a transient fault reported as an error
        if case.save_channel == "stdout|pipe" { std::fs::write(dir.join("x.bc"), &r.stdout).unwrap(); }
        if case.save_channel == "-o FILE" && save_name != "x.bc" {
            // the load below reads x.bc: what the operating system finds under the name as given is moved there
            let bytes = std::fs::read(dir.join(save_name)).unwrap_or_default();
            let _ = std::fs::remove_file(dir.join("x.bc"));
            std::fs::write(dir.join("x.bc"), bytes).unwrap();
        }
        if case.save_channel == "-o DIR" {
            // whatever name the tool derived: the one file of the directory (a stale image that was simply left alone is what is found then)
            let mut names: Vec<std::path::PathBuf> = std::fs::read_dir(dir.join("outdir")).map(|rd| rd.filter_map(|e| e.ok()).map(|e| e.path()).collect()).unwrap_or_default();
            names.sort();
            let pick = names.iter().find(|p| std::fs::read(p).map(|b| b != other_image).unwrap_or(false)).or(names.first()).cloned();
            match pick { Some(p) => { let _ = std::fs::copy(&p, dir.join("x.bc")); } None => { let _ = std::fs::write(dir.join("x.bc"), b""); } }
        }
        // the image that reached the disk must be the image of this program, whatever the channel did
        {
            let bytes = std::fs::read(dir.join("x.bc")).unwrap_or_default();
            let reference = vm::serialize_to_vec(&program).unwrap_or_default();
            if bytes != reference {
                cleanup(&dir);
                let at = first_difference(&bytes, &reference).unwrap_or(0);
                return Err(("S1:image_on_disk_incomplete".into(), format!("`fml compile` ({}, plan `{}`) exited 0; the disk holds {} bytes, the program's image has {} bytes, first difference at {}",
                    case.save_channel, case.save_plan, bytes.len(), reference.len(), at)));
            }
        }
        // exchange: the foreign node reads what the CLI wrote (C04 a, end to end)
        if case.property == "C04" {
            let bytes = std::fs::read(dir.join("x.bc")).unwrap_or_default();
            match foreign::decode(&bytes) {
                Err(e) => { cleanup(&dir); return Err(("L1:foreign_decoder_rejects_cli_image".into(), e)); }
                Ok((m, _)) => if m != model { cleanup(&dir); return Err(("L2:foreign_decode_of_cli_image_differs_from_program".into(), "the file written by `fml compile -o` denotes another program".into())); }
            }
        }
    }
    // load under the read schedule
    let dsp = case.dev_stdin_pipe && !case.via_stdin;
    let image_bytes = if dsp { std::fs::read(dir.join("x.bc")).unwrap_or_default() } else { Vec::new() };
    let args: Vec<&str> = if case.via_stdin { vec![case.action.as_str()] } else if dsp { vec![case.action.as_str(), "/dev/stdin"] } else { vec![case.action.as_str(), "x.bc"] };
    // fault-free load of the same image: reference for disassemble, and tells schedule-dependence from plain rejection
    // (always from the regular file, so that the special path is compared with the ordinary one)
    let plain_args: Vec<&str> = if case.via_stdin { vec![case.action.as_str()] } else { vec![case.action.as_str(), "x.bc"] };
    let mut clean = Child::new(case.profile, &plain_args);
    if case.via_stdin { clean.stdin = In::File("x.bc".into()); }
    clean.shim = Some(ShimCfg { seed: case.hash_seed, ..Default::default() });
    let clean_r = run_child(&dir, &clean);
    children += 1;
    let mut faulty = Child::new(case.profile, &args);
    faulty.env = case.env.clone();
    if case.via_stdin { faulty.stdin = In::File("x.bc".into()); }
    if case.via_stdin && case.stdin_offset > 0 {
        // the image sits behind a prefix (a different, valid image of a one-line program, repeated to the requested length)
        let mut prefix = foreign::encode(&foreign::boundary_pool_model(3));
        while prefix.len() < case.stdin_offset { let again = prefix.clone(); prefix.extend_from_slice(&again); }
        let mut all = prefix.clone();
        all.extend_from_slice(&std::fs::read(dir.join("x.bc")).unwrap_or_default());
        std::fs::write(dir.join("behind.bc"), &all).unwrap();
        faulty.stdin = In::FileAt("behind.bc".into(), prefix.len() as u64);
    }
    if dsp { faulty.stdin = In::Pipe(image_bytes.clone()); }
    // call indices relative to the number of read calls the fault-free load made: `$-1` = its last call (the one that reports
    // end-of-file), `$-2` the one before, `$/2` the middle one
    let n_reads = clean_r.trace.lines().filter(|l| l.starts_with(if case.via_stdin { "R i " } else { "R r " })).count();
    let plan = case.plan.replace("$-1", &n_reads.saturating_sub(1).to_string()).replace("$-2", &n_reads.saturating_sub(2).to_string()).replace("$/2", &(n_reads / 2).to_string());
    let hard = plan.contains(":x:") || plan.contains(":y:");
    faulty.shim = Some(ShimCfg { seed: case.hash_seed, plan: plan.clone(), clock: None, junk: 0, budget: Some(4_000_000), ..Default::default() });
    let r = match (&case.overlap_load, case.via_stdin && case.stdin_offset == 0) {
        (Some(sched), true) => {
            let choices: Vec<u8> = sched.bytes().map(|b| b.wrapping_sub(b'0')).collect();
            let other = vm::compile_source("print(\"the other program\\n\")\n").ok().and_then(|p| vm::serialize_to_vec(&p).ok()).unwrap_or_default();
            let mut a = faulty.clone();
            a.stdin = In::Pipe(std::fs::read(dir.join("x.bc")).unwrap_or_default());
            let mut b = Child::new(case.profile, &["execute"]);
            b.stdin = In::Pipe(other);
            b.shim = Some(ShimCfg { seed: case.hash_seed ^ 9, ..Default::default() });
            let (ra, rb, order) = super::proc::run_scheduled_pair(&dir, &a, &b, "openw,writef,rename,unlink", &choices);
            children += 1;
            if rb.exit != Exit::Timeout && (!rb.exit.is_success() || rb.stdout != b"the other program\n") {
                cleanup(&dir);
                return Err((format!("{}11:another_live_load_was_disturbed", if case.writer == "foreign" { "L" } else { "R" }), format!("two live `fml execute` with different programs on stdin (schedule `{}`): the other one ended with {} and {} bytes of stdout instead of printing its own line", order, rb.exit.show(), rb.stdout.len())));
            }
            ra
        }
        _ => run_child(&dir, &faulty),
    };
    children += 1;
    cleanup(&dir);
    let fired = r.trace.lines().filter(|l| l.starts_with("R ") && (l.ends_with("cut") || l.ends_with("-> E4"))).count() as u64;
    let hard_fired = r.trace.lines().filter(|l| l.starts_with("R ") && l.contains("-> E") && !l.ends_with("-> E4")).count() as u64;
    if r.exit == Exit::Timeout || clean_r.exit == Exit::Timeout { return Ok(None); }
    let tag = if case.writer == "foreign" { "L" } else { "R" };
    if r.budget_exceeded() {
        return Err((format!("{}7:load_makes_no_progress", tag), "read call budget exhausted under transient faults".into()));
    }
    if r.exit.is_native_crash() {
        return Err((format!("{}8:loader_died_by_signal", tag), r.exit.show()));
    }
    let (want_exit, want_out) = if case.action == "execute" { (&direct.exit, &direct.stdout) } else { (&Exit::Code(0), &clean_r.stdout) };
    if hard {
        // the medium failed under the loader: the command may fail (and then nothing more is claimed), but a command that
        // reports success must have loaded, and run or listed, exactly the saved program
        if hard_fired > 0 && r.exit.is_success() && (!want_exit.is_success() || &r.stdout != want_out) {
            return Err((format!("{}10:success_reported_after_read_error_but_a_different_program_loaded", tag), format!("`fml {}{}` exited 0 after a hard read error (plan `{}`) with {} bytes of stdout; the saved program gives {} with {} bytes",
                case.action, if case.via_stdin { " < x.bc" } else { " x.bc" }, plan, r.stdout.len(), want_exit.show(), want_out.len())));
        }
        return Ok(Some(Obs { children, faults_fired: fired, hard_fired }));
    }
    if &r.exit != want_exit || &r.stdout != want_out {
        let schedule = &clean_r.exit == want_exit && (case.action != "execute" || &clean_r.stdout == want_out);
        let at = first_difference(&r.stdout, want_out).unwrap_or(0);
        let oracle = if schedule && case.via_stdin && case.stdin_offset > 0 {
            format!("{}6:load_ignores_where_stdin_stands", tag)
        } else if schedule && dsp && case.plan.is_empty() {
            format!("{}6:load_depends_on_the_kind_of_file_behind_the_path", tag)
        } else if schedule && !case.plan.is_empty() {
            format!("{}6:load_depends_on_delivery_schedule", tag)
        } else if case.action == "execute" {
            format!("{}5:behaviour_differs_after_cycle", tag)
        } else {
            format!("{}9:disassemble_rejects_or_differs", tag)
        };
        return Err((oracle, format!("`fml {}{}` on the {}-written image with plan `{}`: {} with {} bytes of stdout; expected {} with {} bytes; first difference at {}",
            case.action, if case.via_stdin { " < x.bc" } else if dsp { " /dev/stdin (a pipe)" } else { " x.bc" }, case.writer, case.plan, r.exit.show(), r.stdout.len(), want_exit.show(), want_out.len(), at)));
    }
    Ok(Some(Obs { children, faults_fired: fired, hard_fired: 0 }))
}

/// A directly built, runnable model (the pool-size family: a minimal program padded with integer constants to exactly n entries,
/// n chosen so that the image *starts* with bytes other tools treat as magic — `#!`, a byte-order mark, gzip/zip/ELF signatures,
/// line ends, Ctrl-Z). The foreign node writes the image; the CLI must load it as the program it denotes, whatever the delivery.
fn check_model_image(case: &Case, m: &foreign::FModel) -> Result<Option<Obs>, (String, String)> {
    let program = match foreign::build_program(m) { Ok(p) => p, Err(_) => return Ok(None) };
    let inproc = vm::run(&program, &vm::RunCfg { step_budget: 1_500_000, ..Default::default() });
    if inproc.end == vm::RunEnd::Budget { return Ok(None); }
    let dir = scratch_dir();
    std::fs::write(dir.join("x.bc"), foreign::encode(m)).unwrap();
    let args: Vec<&str> = if case.via_stdin { vec![case.action.as_str()] } else { vec![case.action.as_str(), "x.bc"] };
    let mut clean = Child::new(case.profile, &args);
    if case.via_stdin { clean.stdin = In::File("x.bc".into()); }
    clean.shim = Some(ShimCfg { seed: case.hash_seed, ..Default::default() });
    let clean_r = run_child(&dir, &clean);
    let mut faulty = Child::new(case.profile, &args);
    if case.via_stdin { faulty.stdin = In::File("x.bc".into()); }
    let plan: String = if case.plan.contains('$') || case.plan.contains(":x:") || case.plan.contains(":y:") { String::new() } else { case.plan.clone() }; // transient plans only here
    faulty.shim = Some(ShimCfg { seed: case.hash_seed, plan: plan.clone(), clock: None, junk: 0, budget: Some(4_000_000), ..Default::default() });
    let r = run_child(&dir, &faulty);
    let _ = std::fs::remove_dir_all(&dir);
    if r.exit == Exit::Timeout || clean_r.exit == Exit::Timeout { return Ok(None); }
    let fired = r.trace.lines().filter(|l| l.starts_with("R ") && (l.ends_with("cut") || l.ends_with("-> E4"))).count() as u64;
    let n = m.consts.len();
    for (which, x) in [("fault-free", &clean_r), ("faulty", &r)] {
        if case.action == "execute" {
            let ok = inproc.end == vm::RunEnd::Ok;
            if x.exit.is_success() != ok || x.stdout != inproc.output.as_bytes() {
                return Err(("L4:fml_loads_foreign_image_as_other_program".into(), format!("`fml execute{}` ({} load, plan `{}`) of a foreign-written image with {} constants (first bytes {:02x} {:02x}): {} with {} bytes of stdout; the program it denotes {} with {} bytes",
                    if case.via_stdin { " < x.bc" } else { " x.bc" }, which, plan, n, n & 0xff, (n >> 8) & 0xff, x.exit.show(), x.stdout.len(), if ok { "succeeds" } else { "fails" }, inproc.output.len())));
            }
        } else if !x.exit.is_success() || x.stdout != clean_r.stdout {
            return Err(("L9:disassemble_rejects_or_differs".into(), format!("`fml disassemble` ({} load, plan `{}`) of a foreign-written image with {} constants: {} with {} bytes of stdout (fault-free: {} bytes)", which, plan, n, x.exit.show(), x.stdout.len(), clean_r.stdout.len())));
        }
    }
    Ok(Some(Obs { children: 2, faults_fired: fired, hard_fired: 0 }))
}

/// Pool sizes whose little-endian u16 makes the image start like something else: line ends, Ctrl-Z, `#!`, byte-order marks,
/// gzip / zip / ELF / `%P` / `<?` / `{"` signatures — plus the width boundaries.
pub const MAGIC_POOL_SIZES: [usize; 24] = [2, 10, 13, 26, 255, 256, 257, 2560, 2570, 3338, 3341, 6656, 8483, 8995, 16188, 17791, 19280, 20517, 8827, 35615, 48111, 65279, 65534, 65535];

fn minimise(case: &Case, oracle: &str) -> Case {
    let want = oracle.split(':').next().unwrap_or("").to_string();
    let still = |c: &Case| matches!(check(c), Err((o, _)) if o.split(':').next().unwrap_or("") == want);
    let mut best = case.clone();
    if !best.plan.is_empty() { let mut c = best.clone(); c.plan = String::new(); if still(&c) { best = c; } }
    if !best.save_plan.is_empty() { let mut c = best.clone(); c.save_plan = String::new(); if still(&c) { best = c; } }
    if best.stale { let mut c = best.clone(); c.stale = false; if still(&c) { best = c; } }
    if best.save_channel != "-o FILE" { let mut c = best.clone(); c.save_channel = "-o FILE".into(); if still(&c) { best = c; } }
    if best.via_stdin { let mut c = best.clone(); c.via_stdin = false; if still(&c) { best = c; } }
    if best.dev_stdin_pipe { let mut c = best.clone(); c.dev_stdin_pipe = false; if still(&c) { best = c; } }
    if !best.env.is_empty() { let mut c = best.clone(); c.env = vec![]; if still(&c) { best = c; } }
    if best.stdin_offset > 0 { let mut c = best.clone(); c.stdin_offset = 0; if still(&c) { best = c; } }
    if best.overlap_save.is_some() { let mut c = best.clone(); c.overlap_save = None; if still(&c) { best = c; } }
    if best.overlap_load.is_some() { let mut c = best.clone(); c.overlap_load = None; if still(&c) { best = c; } }
    if best.save_name_style != 0 { let mut c = best.clone(); c.save_name_style = 0; if still(&c) { best = c; } }
    if let ProgSpec::Stmts(stmts) = &best.spec {
        let mut stmts = stmts.clone();
        let mut j = stmts.len();
        while j > 0 {
            j -= 1;
            if stmts.len() <= 1 { break; }
            let mut cand = stmts.clone();
            cand.remove(j);
            let mut c = best.clone();
            c.spec = ProgSpec::Stmts(cand.clone());
            if still(&c) { stmts = cand; best = c; }
        }
    }
    best
}

pub fn run_layer_b(property: &str, seed: u64, tier: &str, ev: &mut Evidence) -> Vec<Violation> {
    let n = if tier == "thorough" { 120_000usize } else { 1200 };
    let mut corpus: Vec<ProgSpec> = work::corpus_specs().into_iter().filter(|(_, s)| s.source().is_some()).map(|(_, s)| s).collect();
    corpus.extend(work::scale_templates().into_iter().map(|(_, s)| ProgSpec::Source(s)));
    let outs: Vec<(Case, Result<Option<Obs>, (String, String)>)> = par_map(n, |i| {
        let mut rng = Rng::for_case(seed, property, ENGINE, i as u64);
        let spec = if i >= corpus.len() && i < corpus.len() + MAGIC_POOL_SIZES.len() {
            ProgSpec::Model(foreign::boundary_pool_model(MAGIC_POOL_SIZES[i - corpus.len()]))
        } else if i < corpus.len() { corpus[i].clone() } else {
            let mut cfg = GenCfg::swarm(&mut rng);
            if cfg.strings == super::gen::StrRegime::Long { cfg.long_max = 20_000; cfg.stmts = cfg.stmts.min(6); }
            work::gen_source_spec(&mut rng, &cfg).0
        };
        let cls = if rng.below(3) == 0 { 'i' } else { 'r' };
        let via_stdin = cls == 'i';
        let plan = match rng.below(6) {
            0 => format!("{}:*:l:{}", cls, rng.pick(&[1u32, 2, 3, 5, 7, 64, 4095])),
            1 => format!("{}:{}:s:{}", cls, rng.below(4), 1 + rng.below(3)),
            2 => format!("{}:{}:e:0", cls, rng.below(4)),
            3 => format!("{c}:*:l:{k};{c}:{a}:e:0;{c}:{b}:e:0", c = cls, k = 1 + rng.below(6), a = rng.below(30), b = 30 + rng.below(200)),
            4 => format!("{c}:0:s:1;{c}:1:s:2;{c}:2:s:3;{c}:3:e:0", c = cls),
            _ => String::new(),
        };
        // one case in eight: the medium fails under the loader (EIO, sticky) at its first, last, last-but-one or middle read
        let plan = if rng.below(8) == 0 {
            let at = *rng.pick(&["0", "$-1", "$-1", "$-2", "$/2"]);
            let kind = if rng.below(3) == 0 { 'y' } else { 'x' }; // one-off or sticky
            if rng.coin() { format!("{}:{}:{}:5", cls, at, kind) } else { format!("{c}:*:l:{k};{c}:{a}:{y}:5", c = cls, k = rng.pick(&[1u32, 7, 64, 4096]), a = at, y = kind) }
        } else { plan };
        let case = Case {
            property: property.to_string(),
            spec,
            profile: if rng.coin() { Profile::Debug } else { Profile::Release },
            writer: if property == "C04" && rng.coin() { "foreign".into() } else { "fml".into() },
            action: if rng.below(4) == 0 { "disassemble".into() } else { "execute".into() },
            via_stdin,
            plan,
            save_channel: (*rng.pick(&["-o FILE", "-o FILE", "stdout>file", "stdout|pipe", "-o DIR"])).to_string(),
            save_plan: String::new(),
            stale: rng.below(4) == 0,
            hash_seed: rng.next_u64(),
            dev_stdin_pipe: false,
            env: if rng.below(3) == 0 { super::proc::env_set(&mut rng) } else { vec![] },
            stdin_offset: 0,
            overlap_save: None,
            overlap_load: None,
            save_name_style: 0,
        };
        let mut case = case;
        if case.writer == "fml" && case.save_channel == "-o FILE" && rng.below(5) == 0 { case.save_name_style = 1 + rng.below(3) as u8; case.stale = false; }
        if case.via_stdin && case.action == "execute" && rng.below(5) == 0 { case.overlap_load = Some((0..10).map(|_| if rng.coin() { '1' } else { '0' }).collect()); case.plan = String::new(); }
        if case.writer == "fml" && case.save_channel == "-o FILE" && rng.below(6) == 0 { case.overlap_save = Some((0..10).map(|_| if rng.coin() { '1' } else { '0' }).collect()); case.stale = false; }
        if case.via_stdin && rng.below(4) == 0 { case.stdin_offset = *rng.pick(&[1usize, 20, 100, 5000, 9000]); if case.plan.contains('$') { case.plan = String::new(); } }
        if !case.via_stdin && rng.below(10) == 0 { case.dev_stdin_pipe = true; if case.plan.contains('$') || case.plan.contains(":x:") || case.plan.contains(":y:") { case.plan = String::new(); } }
        if rng.below(3) == 0 {
            let c = if case.save_channel == "-o FILE" || case.save_channel == "-o DIR" { 'f' } else { 'o' };
            case.save_plan = match rng.below(5) {
                0 => format!("{}:*:l:{}", c, rng.pick(&[1u32, 2, 3, 7, 64, 1023])), 1 => format!("{}:{}:s:{}", c, rng.below(3), 1 + rng.below(4)), 2 => format!("{}:{}:e:0", c, rng.below(3)),
                // a passing error (EAGAIN on a pipe somebody switched to non-blocking, a passing EIO), alone or in a burst: the save may fail — an image that is reported saved is complete
                3 => format!("{}:{}:y:{}", c, rng.below(4), rng.pick(&[11u32, 11, 5])),
                _ => { let at = rng.below(3); (0..12).map(|k| format!("{}:{}:y:11", c, at + k)).collect::<Vec<_>>().join(";") }
            };
        }
        let r = check(&case);
        (case, r)
    });
    let (mut children, mut fired, mut with_faults) = (0u64, 0u64, 0u64);
    let mut with_hard = 0u64;
    let mut raw = Vec::new();
    for (case, r) in outs {
        ev.evaluations += 1;
        match r {
            Ok(Some(o)) => {
                children += o.children;
                fired += o.faults_fired;
                if o.hard_fired > 0 { with_hard += 1; }
                if o.faults_fired > 0 {
                    with_faults += 1;
                    ev.distinct.insert(digest_of(&(digest_bytes(case.spec.to_json().to_string().as_bytes()), case.profile, &case.writer, &case.action, case.via_stdin, &case.plan)));
                    if ev.samples.len() < 6 && with_faults % 40 == 1 {
                        ev.sample(json!({"engine": ENGINE, "program_brief": case.spec.brief(), "profile": case.profile.name(), "image_written_by": case.writer, "action": case.action,
                            "via_stdin": case.via_stdin, "input_fd_plan": case.plan, "read_faults_fired": o.faults_fired}));
                    }
                }
            }
            Ok(None) => {}
            Err((o, d)) => raw.push((case, o, d)),
        }
    }
    ev.count("layer_b.children_spawned", children);
    ev.count("layer_b.read_faults_fired_on_input_fd", fired);
    ev.count("layer_b.load_cycles_with_read_faults_fired", with_faults);
    ev.count("layer_b.load_cycles_with_hard_read_error_fired", with_hard);
    let mut seen: Vec<String> = Vec::new();
    let mut violations = Vec::new();
    for (case, oracle, detail) in raw {
        let key = format!("{}|{}", oracle, case.writer);
        if seen.contains(&key) { continue; }
        seen.push(key);
        let small = minimise(&case, &oracle);
        let (c, o, d) = match check(&small) { Err((o2, d2)) => (small, o2, d2), _ => (case, oracle, detail) };
        violations.push(Violation { property: property.to_string(), oracle: o.clone(), detail: d, signature: json!({"engine": ENGINE, "oracle": o, "writer": c.writer, "action": c.action}), replay: c.to_json() });
    }
    violations
}

pub fn replay(v: &Value) -> Result<Option<(String, String)>, String> {
    let case = Case::from_json(v).ok_or("malformed load-cycle replay")?;
    match check(&case) {
        Ok(_) => Ok(None),
        Err((o, d)) => Ok(Some((o, d))),
    }
}
