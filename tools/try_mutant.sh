#!/bin/bash
# tools/try_mutant.sh <patch.diff> <ID> [<ID>...]   — apply a seeded change to /repo, run the quick checks, undo it.
# Prints one line per check: CAUGHT / MISSED / HARNESS-ERROR, and restores /repo whatever happens.
set -u
patch="$(readlink -f "$1")"; shift
cd /verif
if ! git -C /repo diff --quiet; then echo "refusing: /repo has uncommitted changes"; exit 2; fi
keep="$(mktemp -d /dev/shm/fmlsim-evidence.XXXXXX)"; cp -a /verif/evidence/. "$keep"/
restore() { git -C /repo checkout -- . ; mkdir -p /verif/build; touch /verif/build/.stale ; cp -a "$keep"/. /verif/evidence/ ; rm -rf "$keep" ; }
trap restore EXIT
git -C /repo apply "$patch" || { echo "patch does not apply"; exit 2; }
tier="${TIER:-quick}"
for id in "$@"; do
  out="$(./check "$id" "$tier" 2>&1)"; rc=$?
  case $rc in
    1) echo "CAUGHT  $id  $(echo "$out" | grep -A1 '^VIOLATION' | head -2 | tr '\n' ' ' | cut -c1-300)";;
    0) echo "MISSED  $id  $(echo "$out" | tail -1 | cut -c1-200)";;
    *) echo "HARNESS-ERROR $id rc=$rc $(echo "$out" | tail -3 | tr '\n' ' ' | cut -c1-300)";;
  esac
done
