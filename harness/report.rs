//! Evidence files, violation reporting, replay files and the known-findings list.

use serde_json::{json, Map, Value};
use std::collections::BTreeMap;
use std::collections::HashSet;
use std::path::PathBuf;

use super::util::{digest_bytes, hex64};

pub fn verif_root() -> PathBuf {
    PathBuf::from(std::env::var("VERIF_ROOT").unwrap_or_else(|_| "/verif".to_string()))
}

/// Where evidence and replay files go: /verif, unless a tool that runs the checks against a scratch copy (tools/sweep_patches.sh)
/// redirects them with VERIF_OUT so that the registered evidence of the real tree is not overwritten.
pub fn out_root() -> PathBuf {
    match std::env::var("VERIF_OUT") { Ok(p) if !p.is_empty() => PathBuf::from(p), _ => verif_root() }
}

#[derive(Clone, Debug)]
pub struct Violation {
    pub property: String,
    /// which sub-oracle failed, e.g. "O1:ok_but_bytes_differ"
    pub oracle: String,
    /// human-readable one-liner
    pub detail: String,
    /// key facts used to match known findings
    pub signature: Value,
    /// everything needed to re-run the case: {"engine": .., ...}
    pub replay: Value,
}

pub struct Evidence {
    pub property: String,
    pub tier: String,
    pub seed: u64,
    pub level: String,
    pub evaluations: u64,
    pub distinct: HashSet<u64>,
    pub rule: String,
    pub samples: Vec<Value>,
    pub counters: BTreeMap<String, u64>,
    pub extra: Map<String, Value>,
    pub assumptions: Vec<String>,
    pub start: std::time::Instant,
}

impl Evidence {
    pub fn new(property: &str, tier: &str, seed: u64, level: &str, rule: &str) -> Evidence {
        Evidence {
            property: property.to_string(),
            tier: tier.to_string(),
            seed,
            level: level.to_string(),
            evaluations: 0,
            distinct: HashSet::new(),
            rule: rule.to_string(),
            samples: Vec::new(),
            counters: BTreeMap::new(),
            extra: Map::new(),
            assumptions: Vec::new(),
            start: std::time::Instant::now(),
        }
    }
    pub fn count(&mut self, key: &str, n: u64) {
        *self.counters.entry(key.to_string()).or_insert(0) += n;
    }
    pub fn sample(&mut self, v: Value) {
        if self.samples.len() < 6 {
            self.samples.push(v);
        }
    }
    pub fn write(&self, violations: usize, known: usize) {
        // wall time is measured here only for the evidence record; it feeds no decision
        let wall = self.start.elapsed().as_secs_f64();
        let mut coverage = Map::new();
        coverage.insert("evaluations".into(), json!(self.evaluations));
        coverage.insert("distinct_nontrivial".into(), json!(self.distinct.len() as u64));
        coverage.insert("rule".into(), json!(self.rule));
        coverage.insert("samples".into(), Value::Array(self.samples.clone()));
        coverage.insert("counters".into(), json!(self.counters));
        let per_hour = if wall > 0.0 { (self.evaluations as f64 / wall * 3600.0) as u64 } else { 0 };
        coverage.insert("simulated_runs_per_hour".into(), json!(per_hour));
        coverage.insert("known_findings_reported".into(), json!(known));
        for (k, v) in &self.extra {
            coverage.insert(k.clone(), v.clone());
        }
        let doc = json!({
            "property_id": self.property,
            "tier": self.tier,
            "seed": self.seed,
            "level": self.level,
            "coverage": Value::Object(coverage),
            "assumptions": self.assumptions,
            "wall_s": (wall * 1000.0).round() / 1000.0,
            "violations": violations,
        });
        let dir = out_root().join("evidence");
        let _ = std::fs::create_dir_all(&dir);
        let path = dir.join(format!("{}.json", self.property));
        let text = serde_json::to_string_pretty(&doc).unwrap();
        if let Err(e) = std::fs::write(&path, text + "\n") {
            eprintln!("HARNESS-ERROR cannot write evidence {}: {}", path.display(), e);
            std::process::exit(2);
        }
    }
}

// ------------------------------------------------------------------------------------------------
// Known findings

#[derive(Clone, Debug)]
pub struct KnownFinding {
    pub status: String,
    pub property: String,
    pub what: String,
    pub matcher: Value,
}

pub fn load_known_findings() -> Vec<KnownFinding> {
    let path = verif_root().join("known_findings.json");
    let text = match std::fs::read_to_string(&path) {
        Ok(t) => t,
        Err(_) => return Vec::new(),
    };
    let v: Value = match serde_json::from_str(&text) {
        Ok(v) => v,
        Err(e) => {
            eprintln!("HARNESS-ERROR known_findings.json is not valid JSON: {}", e);
            std::process::exit(2);
        }
    };
    let mut out = Vec::new();
    for e in v.get("findings").and_then(|f| f.as_array()).cloned().unwrap_or_default() {
        out.push(KnownFinding {
            status: e.get("status").and_then(|s| s.as_str()).unwrap_or("").to_string(),
            property: e.get("property").and_then(|s| s.as_str()).unwrap_or("").to_string(),
            what: e.get("what").and_then(|s| s.as_str()).unwrap_or("").to_string(),
            matcher: e.get("match").cloned().unwrap_or(Value::Null),
        });
    }
    out
}

/// A `known` entry suppresses a violation only if *every* key of its matcher agrees with the
/// violation's signature. Keys ending in `_min` are numeric lower bounds, keys ending in `_contains`
/// are substring tests, all others are equality. A `fixed` entry suppresses nothing.
pub fn matches_known(k: &KnownFinding, v: &Violation) -> bool {
    if k.status != "known" || k.property != v.property {
        return false;
    }
    let m = match k.matcher.as_object() {
        Some(m) if !m.is_empty() => m,
        _ => return false,
    };
    for (key, want) in m {
        if let Some(base) = key.strip_suffix("_min") {
            let have = v.signature.get(base).and_then(|x| x.as_i64());
            match (have, want.as_i64()) {
                (Some(h), Some(w)) if h >= w => {}
                _ => return false,
            }
        } else if let Some(base) = key.strip_suffix("_contains") {
            let have = v.signature.get(base).and_then(|x| x.as_str());
            match (have, want.as_str()) {
                (Some(h), Some(w)) if h.contains(w) => {}
                _ => return false,
            }
        } else if v.signature.get(key) != Some(want) {
            return false;
        }
    }
    true
}

// ------------------------------------------------------------------------------------------------
// Final reporting: prints KNOWN-FINDING / VIOLATION lines, writes replay files, returns exit code.

pub fn write_replay(v: &Violation) -> PathBuf {
    let dir = out_root().join("replays");
    let _ = std::fs::create_dir_all(&dir);
    let doc = json!({
        "property": v.property,
        "oracle": v.oracle,
        "detail": v.detail,
        "signature": v.signature,
        "found_with_verif_seed": std::env::var("VERIF_SEED").ok().and_then(|s| s.trim().parse::<u64>().ok()).unwrap_or(1),
        "note": "the replay section is self-contained data (program, configuration, fault plan / clock script / hash seed): replaying does not depend on VERIF_SEED",
        "replay": v.replay,
    });
    let text = serde_json::to_string_pretty(&doc).unwrap();
    let name = format!("{}-{}.json", v.property, hex64(digest_bytes(text.as_bytes())));
    let path = dir.join(name);
    if let Err(e) = std::fs::write(&path, text + "\n") {
        eprintln!("HARNESS-ERROR cannot write replay {}: {}", path.display(), e);
        std::process::exit(2);
    }
    path
}

pub fn finish(mut evidence: Evidence, violations: Vec<Violation>) -> i32 {
    let known = load_known_findings();
    let mut printed_known: Vec<String> = Vec::new();
    let mut real: Vec<Violation> = Vec::new();
    for v in violations {
        if let Some(k) = known.iter().find(|k| matches_known(k, &v)) {
            if !printed_known.contains(&k.what) {
                printed_known.push(k.what.clone());
            }
        } else {
            real.push(v);
        }
    }
    for what in &printed_known {
        println!("KNOWN-FINDING: property={} {}", evidence.property, what);
    }
    // de-duplicate by oracle + signature so one defect does not print hundreds of lines
    let mut seen: HashSet<String> = HashSet::new();
    let mut reported = 0usize;
    for v in &real {
        let key = format!("{}|{}", v.oracle, v.signature);
        if !seen.insert(key) {
            continue;
        }
        if reported < 12 {
            let path = write_replay(v);
            println!("VIOLATION property={} replay={}", v.property, path.display());
            println!("  oracle={} {}", v.oracle, v.detail);
        } else {
            println!("  also: oracle={} {}", v.oracle, v.detail);
        }
        reported += 1;
    }
    if reported > 12 {
        println!("  … {} further distinct violations not written out", reported - 12);
    }
    evidence.extra.insert("violations_total_cases".into(), json!(real.len()));
    evidence.write(real.len(), printed_known.len());
    if real.is_empty() {
        println!("OK property={} tier={} seed={} evaluations={} distinct_nontrivial={}",
                 evidence.property, evidence.tier, evidence.seed, evidence.evaluations, evidence.distinct.len());
        0
    } else {
        1
    }
}
