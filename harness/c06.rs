//! C06 — staged parse | compile | execute equals run, for every AST interchange format (DESIGN §5.3).
//! The pipeline as separate processes connected by channels the simulator owns: regular files,
//! captured pipes, stdin/stdout redirections, derived file names in output directories, the wrapper
//! script — with transient read/write faults injected on every stage's fds.

use serde_json::{json, Value};

use crate::parser::AST;

use super::gen::{GenCfg, StrRegime};
use super::proc::{run_child, run_live_pipeline, run_scheduled_pair, scratch_dir, Child, ChildResult, Exit, In, Out, Profile, ShimCfg};
use super::report::{Evidence, Violation};
use super::util::{catch, digest_bytes, digest_of, first_difference, first_line, par_map, Rng};
use super::vm;
use super::work::{self, ProgSpec};

pub const ENGINE: &str = "process-sim:staged-pipeline";

#[derive(Clone, Copy, Debug, PartialEq, Eq, Hash)]
pub enum Fmt {
    Json,
    Lisp,
    Yaml,
}

impl Fmt {
    pub const ALL: [Fmt; 3] = [Fmt::Json, Fmt::Lisp, Fmt::Yaml];
    pub fn ext(&self) -> &'static str {
        match self { Fmt::Json => "json", Fmt::Lisp => "lisp", Fmt::Yaml => "yaml" }
    }
    pub fn aliases(&self) -> &'static [&'static str] {
        match self {
            Fmt::Json => &["json", "JSON", "Json"],
            Fmt::Lisp => &["lisp", "LISP", "sexp", "sexpr", "SEXP", "Sexpr"],
            Fmt::Yaml => &["yaml", "YAML", "Yaml"],
        }
    }
    pub fn from_ext(s: &str) -> Option<Fmt> {
        match s { "json" => Some(Fmt::Json), "lisp" => Some(Fmt::Lisp), "yaml" => Some(Fmt::Yaml), _ => None }
    }
    fn serializer(&self) -> crate::ASTSerializer {
        match self { Fmt::Json => crate::ASTSerializer::JSON, Fmt::Lisp => crate::ASTSerializer::LISP, Fmt::Yaml => crate::ASTSerializer::YAML }
    }
}

#[derive(Clone, Debug, PartialEq, Eq, Hash)]
pub enum Chan {
    /// `-o FILE`
    OFile,
    /// `-o DIR` (file name derived by the tool)
    ODir,
    /// stdout redirected to a regular file
    StdoutFile,
    /// stdout captured from a pipe and handed to the next stage
    StdoutPipe,
    /// `-o /dev/stdout`: the output path names something that is not a regular file (a pipe behind a device node; FIFOs,
    /// /dev/fd/N and process substitutions look the same to the tool: not seekable, not truncatable, no fsync)
    DevStdout,
}

impl Chan {
    fn name(&self) -> &'static str {
        match self { Chan::OFile => "-o FILE", Chan::ODir => "-o DIR", Chan::StdoutFile => "stdout>file", Chan::StdoutPipe => "stdout|pipe", Chan::DevStdout => "-o /dev/stdout" }
    }
    fn from_name(s: &str) -> Option<Chan> {
        [Chan::OFile, Chan::ODir, Chan::StdoutFile, Chan::StdoutPipe, Chan::DevStdout].iter().find(|c| c.name() == s).cloned()
    }
}

#[derive(Clone, Debug, PartialEq, Eq, Hash)]
pub struct Tuple {
    pub format: Fmt,
    /// Some(alias) = explicit flag; None = inferred from a file extension
    pub parse_flag: Option<String>,
    pub parse_stdin: bool,
    pub parse_out: Chan,
    pub compile_flag: Option<String>,
    pub compile_stdin: bool,
    pub compile_out: Chan,
    pub exec_stdin: bool,
    pub profile: Profile,
    /// shim plans for the three stages (transient faults only)
    pub plans: [String; 3],
    /// use the `fml` wrapper script for the whole pipeline (goes through JSON files)
    pub wrapper: bool,
    /// name of the source file (dots, blanks, non-ASCII, no extension: derived names under -o DIR depend on it)
    pub input_name: String,
    /// longer stale files already sit at the `-o FILE` paths of parse and compile (durable state of an earlier run)
    pub stale: bool,
    pub hash_seed: u64,
    /// Some(stage): the plan of that stage holds a *hard* I/O error (disk full, EIO on read, ...). Then the stage may fail, and
    /// the only demand is the narrow one: a stage that reports success has handed over exactly the right program (judge_hard).
    pub hard_stage: Option<usize>,
    /// every stage is invoked through the repository's `fml` wrapper script (`fml parse …`, `fml compile …`, `fml execute …` with
    /// PARSER/COMPILER/INTERPRETER pointing at the binary) instead of the binary itself
    pub wrapper_stages: bool,
    /// the guest program's stdout fails for good at one of its own writes — under `run` and under `execute` alike: whatever
    /// the tool does about it, the two ways of running the program must do the same
    pub guest_stdout_fault: String,
    /// Some((stage, plan)): an earlier invocation of that very stage in the same directory was killed (SIGKILL) in the middle
    /// of writing its output; whatever it left behind is the durable state the real invocation starts from
    pub crash_before: Option<(usize, String)>,
    /// the pipeline runs as a live shell pipeline (all stages alive at once on kernel pipes) instead of stage by stage
    pub live: bool,
    /// Some((stage, schedule)): that stage (0 parse, 1 compile) runs as TWO live invocations of the very same command line under
    /// the cooperative scheduler (they announce before opening the output, before their first writes to it, before rename/flock);
    /// whenever both wait, character k of the schedule says who goes. Both must succeed and the shared output must be right.
    pub overlap: Option<(usize, String)>,
    /// every stage (and `run`) starts in a working directory that was deleted under it; all paths it is given are absolute
    pub deleted_cwd: bool,
    /// how the files of the pipeline are spelled and what sits behind the names: 0 = plain; 1 = the `-o FILE` names carry an
    /// upper-case extension (`TREE.JSON` is not used — the format is chosen by it — but `IMAGE.BC` is); 2 = the `-o FILE` paths go
    /// through `lnk/..` where `lnk` is a symbolic link to a directory elsewhere; 3 = every input file is a symbolic link to a file
    /// with another base name and no extension (a content-addressed store)
    pub path_style: u8,
}

pub const INPUT_NAMES: &[&str] = &["prog.fml", "prog.fml", "job.1.fml", "my prog.fml", "prog.v2.final.fml", "прог.fml", "noext", "a.b", "UPPER.FML", "x.json.fml", "trailing.dot..fml"];

impl Tuple {
    pub fn to_json(&self) -> Value {
        json!({"format": self.format.ext(), "parse_flag": self.parse_flag, "parse_stdin": self.parse_stdin, "parse_out": self.parse_out.name(),
               "compile_flag": self.compile_flag, "compile_stdin": self.compile_stdin, "compile_out": self.compile_out.name(), "exec_stdin": self.exec_stdin,
               "profile": self.profile.name(), "plans": self.plans, "wrapper": self.wrapper, "input_name": self.input_name, "stale": self.stale, "hash_seed": self.hash_seed, "hard_stage": self.hard_stage, "wrapper_stages": self.wrapper_stages, "guest_stdout_fault": self.guest_stdout_fault,
               "crash_before": self.crash_before.as_ref().map(|(s, p)| json!([s, p])), "live": self.live,
               "overlap": self.overlap.as_ref().map(|(s, p)| json!([s, p])), "deleted_cwd": self.deleted_cwd, "path_style": self.path_style})
    }
    pub fn from_json(v: &Value) -> Option<Tuple> {
        let plans = v.get("plans")?.as_array()?;
        Some(Tuple {
            format: Fmt::from_ext(v.get("format")?.as_str()?)?,
            parse_flag: v.get("parse_flag").and_then(|x| x.as_str()).map(|s| s.to_string()),
            parse_stdin: v.get("parse_stdin")?.as_bool()?,
            parse_out: Chan::from_name(v.get("parse_out")?.as_str()?)?,
            compile_flag: v.get("compile_flag").and_then(|x| x.as_str()).map(|s| s.to_string()),
            compile_stdin: v.get("compile_stdin")?.as_bool()?,
            compile_out: Chan::from_name(v.get("compile_out")?.as_str()?)?,
            exec_stdin: v.get("exec_stdin")?.as_bool()?,
            profile: Profile::from_name(v.get("profile")?.as_str()?)?,
            plans: [plans.get(0)?.as_str()?.to_string(), plans.get(1)?.as_str()?.to_string(), plans.get(2)?.as_str()?.to_string()],
            wrapper: v.get("wrapper")?.as_bool()?,
            input_name: v.get("input_name").and_then(|x| x.as_str()).unwrap_or("prog.fml").to_string(),
            stale: v.get("stale").and_then(|x| x.as_bool()).unwrap_or(false),
            hash_seed: v.get("hash_seed")?.as_u64()?,
            hard_stage: v.get("hard_stage").and_then(|x| x.as_u64()).map(|x| x as usize),
            wrapper_stages: v.get("wrapper_stages").and_then(|x| x.as_bool()).unwrap_or(false),
            guest_stdout_fault: v.get("guest_stdout_fault").and_then(|x| x.as_str()).unwrap_or("").to_string(),
            crash_before: v.get("crash_before").and_then(|x| x.as_array()).and_then(|a| Some((a.get(0)?.as_u64()? as usize, a.get(1)?.as_str()?.to_string()))),
            live: v.get("live").and_then(|x| x.as_bool()).unwrap_or(false),
            overlap: v.get("overlap").and_then(|x| x.as_array()).and_then(|a| Some((a.get(0)?.as_u64()? as usize, a.get(1)?.as_str()?.to_string()))),
            deleted_cwd: v.get("deleted_cwd").and_then(|x| x.as_bool()).unwrap_or(false),
            path_style: v.get("path_style").and_then(|x| x.as_u64()).unwrap_or(0) as u8,
        })
    }

    /// Only combinations in which a format is determinable are generated (DESIGN §5.3).
    pub fn random(rng: &mut Rng, format: Fmt) -> Tuple {
        let parse_out = rng.pick(&[Chan::OFile, Chan::OFile, Chan::OFile, Chan::ODir, Chan::ODir, Chan::StdoutFile, Chan::StdoutFile, Chan::StdoutPipe, Chan::StdoutPipe, Chan::DevStdout]).clone();
        // format selection for parse: by extension only possible with -o FILE
        let parse_flag = if parse_out == Chan::OFile && rng.coin() { None } else { Some(rng.pick(format.aliases()).to_string()) };
        let compile_stdin = parse_out == Chan::StdoutPipe || parse_out == Chan::DevStdout || rng.below(4) == 0;
        let compile_flag = if compile_stdin || rng.below(3) == 0 { Some(rng.pick(format.aliases()).to_string()) } else { None };
        let compile_out = rng.pick(&[Chan::OFile, Chan::OFile, Chan::OFile, Chan::ODir, Chan::ODir, Chan::StdoutFile, Chan::StdoutFile, Chan::StdoutPipe, Chan::StdoutPipe, Chan::DevStdout]).clone();
        let exec_stdin = compile_out == Chan::StdoutPipe || compile_out == Chan::DevStdout || rng.below(4) == 0;
        let mut plans = [String::new(), String::new(), String::new()];
        for p in plans.iter_mut() {
            *p = match rng.below(7) {
                0 => format!("i:*:l:{k};r:*:l:{k}", k = rng.pick(&[1u32, 2, 3, 7, 64, 4096])),
                1 => format!("o:*:l:{k};f:*:l:{k}", k = rng.pick(&[1u32, 2, 3, 7, 64, 1024])),
                2 => format!("r:{}:e:0;i:{}:e:0;o:{}:e:0;f:{}:e:0", rng.below(3), rng.below(3), rng.below(3), rng.below(3)),
                3 => format!("r:{}:s:1;i:{}:s:2;f:{}:b:0;o:{}:s:1", rng.below(3), rng.below(3), rng.below(4), rng.below(4)),
                _ => String::new(),
            };
        }
        Tuple {
            format,
            parse_flag,
            parse_stdin: rng.below(4) == 0,
            parse_out,
            compile_flag,
            compile_stdin,
            compile_out,
            exec_stdin,
            profile: if rng.coin() { Profile::Debug } else { Profile::Release },
            plans,
            wrapper: false,
            input_name: (*rng.pick(INPUT_NAMES)).to_string(),
            stale: rng.below(4) == 0,
            hash_seed: rng.next_u64(),
            hard_stage: None,
            wrapper_stages: false,
            guest_stdout_fault: String::new(),
            crash_before: None,
            live: false,
            overlap: None,
            deleted_cwd: rng.below(14) == 0,
            path_style: match rng.below(10) { 0 => 1, 1 => 2, 2 => 3, _ => 0 },
        }
    }

    pub fn plain(format: Fmt, profile: Profile) -> Tuple {
        Tuple { format, parse_flag: Some(format.ext().to_string()), parse_stdin: false, parse_out: Chan::OFile, compile_flag: None, compile_stdin: false,
                compile_out: Chan::OFile, exec_stdin: false, profile, plans: [String::new(), String::new(), String::new()], wrapper: false,
                input_name: "prog.fml".into(), stale: false, hash_seed: 11, hard_stage: None, wrapper_stages: false, guest_stdout_fault: String::new(), crash_before: None, live: false, overlap: None, deleted_cwd: false, path_style: 0 }
    }
}

pub fn ast_depth(ast: &AST) -> usize {
    fn d(a: &AST) -> usize {
        let kids: Vec<&AST> = match a {
            AST::Integer(_) | AST::Boolean(_) | AST::Null | AST::AccessVariable { .. } => vec![],
            AST::Variable { value, .. } | AST::AssignVariable { value, .. } => vec![value],
            AST::Array { size, value } => vec![size, value],
            AST::Object { extends, members } => std::iter::once(&**extends).chain(members.iter().map(|m| &**m)).collect(),
            AST::AccessField { object, .. } => vec![object],
            AST::AccessArray { array, index } => vec![array, index],
            AST::AssignField { object, value, .. } => vec![object, value],
            AST::AssignArray { array, index, value } => vec![array, index, value],
            AST::Function { body, .. } => vec![body],
            AST::CallFunction { arguments, .. } => arguments.iter().map(|m| &**m).collect(),
            AST::CallMethod { object, arguments, .. } => std::iter::once(&**object).chain(arguments.iter().map(|m| &**m)).collect(),
            AST::Top(v) | AST::Block(v) => v.iter().map(|m| &**m).collect(),
            AST::Loop { condition, body } => vec![condition, body],
            AST::Conditional { condition, consequent, alternative } => vec![condition, consequent, alternative],
            AST::Print { arguments, .. } => arguments.iter().map(|m| &**m).collect(),
        };
        1 + kids.into_iter().map(d).max().unwrap_or(0)
    }
    d(ast)
}

pub struct Prepared {
    pub source: String,
    pub ast: AST,
    pub depth: usize,
    /// bracket nesting of the JSON form / parenthesis nesting of the S-expression form of the AST
    pub json_nesting: usize,
    pub lisp_nesting: usize,
    pub reference: Vec<u8>,
}

fn text_nesting(text: &str, open: &[char], close: &[char]) -> usize {
    let (mut d, mut m, mut in_str, mut esc) = (0usize, 0usize, false, false);
    for c in text.chars() {
        if in_str {
            if esc { esc = false; } else if c == '\\' { esc = true; } else if c == '"' { in_str = false; }
        } else if c == '"' {
            in_str = true;
        } else if open.contains(&c) {
            d += 1;
            m = m.max(d);
        } else if close.contains(&c) {
            d = d.saturating_sub(1);
        }
    }
    m
}

/// What `run` would do up to execution, in-process. None = run itself does not get past parse/compile
/// (then no stage is obliged to accept the program either).
pub fn prepare(source: &str) -> Option<Prepared> {
    let ast = vm::parse(source).ok()?;
    let program = vm::compile(&ast).ok()?;
    // `run` never writes an image: a program it can compile but that cannot be written is still a program run accepts, and
    // the compile stage's refusal of it is reported by the pipeline (O4). The reference is then empty and never compared.
    let reference = vm::serialize_to_vec(&program).unwrap_or_default();
    let depth = ast_depth(&ast);
    let json_nesting = catch(|| Fmt::Json.serializer().serialize(&ast).ok()).ok().flatten().map(|t| text_nesting(&t, &['{', '['], &['}', ']'])).unwrap_or(0);
    let lisp_nesting = catch(|| Fmt::Lisp.serializer().serialize(&ast).ok()).ok().flatten().map(|t| text_nesting(&t, &['('], &[')'])).unwrap_or(0);
    Some(Prepared { source: source.to_string(), ast, depth, json_nesting, lisp_nesting, reference })
}

pub struct StageFail {
    pub stage: &'static str,
    pub exit: Exit,
    pub message: String,
}

pub struct Staged {
    pub ast_bytes: Option<Vec<u8>>,
    pub bc_bytes: Option<Vec<u8>>,
    pub exec: Option<ChildResult>,
    pub failed: Option<StageFail>,
    pub children: u64,
    pub faults_fired: u64,
    pub budget_exceeded: bool,
    /// intercepted calls per stage and class (o f i r), from the shim trace: where a hard fault can be placed
    pub calls: [[u64; 4]; 3],
    /// hard errors the shim actually answered with, per stage
    pub hard_fired: [u64; 3],
    /// exit of each stage that ran
    pub exits: [Option<Exit>; 3],
    /// killed predecessor invocations that really died inside their output
    pub crashes_fired: u64,
    pub overlaps_run: u64,
}

fn count_calls(trace: &str) -> [u64; 4] {
    let mut c = [0u64; 4];
    for l in trace.lines() {
        if l.starts_with("W o ") { c[0] += 1; } else if l.starts_with("W f ") { c[1] += 1; } else if l.starts_with("R i ") { c[2] += 1; } else if l.starts_with("R r ") { c[3] += 1; }
    }
    c
}

fn count_hard(trace: &str) -> u64 {
    trace.lines().filter(|l| (l.starts_with("W ") || l.starts_with("R ")) && l.contains("-> E") && !l.ends_with("-> E4")).count() as u64
}

fn stage_shim(t: &Tuple, stage: usize, source_len: usize) -> Option<ShimCfg> {
    // bounded liveness: the budget grows with the data (one byte per call is a legal delivery; the serialized AST of a program is
    // well below 400 times its source)
    Some(ShimCfg { seed: t.hash_seed.wrapping_add(stage as u64), plan: t.plans[stage].clone(), clock: None, junk: 0, budget: Some(3_000_000 + 400 * source_len as u64), ..Default::default() })
}

fn count_faults(trace: &str) -> u64 {
    trace.lines().filter(|l| (l.starts_with("W ") || l.starts_with("R ")) && (l.ends_with("short") || l.ends_with("cut") || l.ends_with("-> E4"))).count() as u64
}

/// A stage's child: the binary itself, or the wrapper script under bash forwarding to it.
fn stage_child(t: &Tuple, argv: &[&str]) -> Child {
    if !t.wrapper_stages { let mut c = Child::new(t.profile, argv); c.deleted_cwd = t.deleted_cwd; return c; }
    let script = work::repo_root().join("fml");
    let mut full: Vec<&str> = vec![script.to_str().unwrap()];
    full.extend_from_slice(argv);
    let mut c = Child::new(t.profile, &full);
    c.program = Some("/bin/bash".into());
    let b = super::proc::binary(t.profile).to_str().unwrap().to_string();
    c.env = vec![("PARSER".into(), b.clone()), ("COMPILER".into(), b.clone()), ("INTERPRETER".into(), b), ("PATH".into(), "/usr/bin:/bin".into())];
    c
}

/// Runs one stage: once, or — when the tuple says so — as two live invocations of the same command under the scheduler.
fn run_stage(t: &Tuple, stage: usize, dir: &std::path::Path, c: &Child, st: &mut Staged) -> ChildResult {
    if let Some((s, sched)) = &t.overlap {
        if *s == stage {
            let choices: Vec<u8> = sched.bytes().map(|b| b.wrapping_sub(b'0')).collect();
            let (ra, rb, _) = run_scheduled_pair(dir, c, c, "openw,writef,rename,flock,unlink", &choices);
            st.children += 1;
            st.overlaps_run += 1;
            // If both succeed, or both fail, either stands for the pair. If exactly one fails cleanly (an implementation may refuse
            // to write a file another live invocation is writing) the successful one is judged: its output must be right all the same.
            return match (ra.exit.is_success(), rb.exit.is_success()) { (true, true) => ChildResult { stdout: ra.stdout, ..rb }, (true, false) if rb.exit.is_clean_failure() => ra, (false, true) if ra.exit.is_clean_failure() => rb, _ => ra };
        }
    }
    run_child(dir, c)
}

/// The earlier, killed invocation of a stage (same command line, same directory): runs until the shim kills it.
fn crashed_predecessor(t: &Tuple, stage: usize, dir: &std::path::Path, c: &Child, st: &mut Staged) {
    if let Some((s, plan)) = &t.crash_before {
        if *s == stage {
            let mut k = c.clone();
            k.shim = Some(ShimCfg { seed: t.hash_seed ^ 0xdead, plan: plan.clone(), budget: Some(3_000_000), ..Default::default() });
            let r = run_child(dir, &k);
            st.children += 1;
            if r.trace.contains("KILLED") { st.crashes_fired += 1; }
        }
    }
}

pub fn run_staged(source: &str, t: &Tuple) -> Staged {
    let dir = scratch_dir();
    if t.path_style == 2 {
        let _ = std::fs::create_dir_all(dir.join("elsewhere/deep"));
        let _ = std::os::unix::fs::symlink("elsewhere/deep", dir.join("lnk"));
    }
    let pre = if t.path_style == 2 && !t.wrapper { "lnk/../" } else { "" };
    let image_name: String = format!("{}{}", pre, if t.path_style == 1 && !t.wrapper { "IMAGE.BC" } else { "image.bc" });
    let input_name: &str = if t.wrapper { "prog.fml" } else { t.input_name.as_str() };
    if t.path_style == 3 && !t.wrapper {
        let _ = std::fs::create_dir_all(dir.join("store"));
        std::fs::write(dir.join("store/src-77aa01"), source).unwrap();
        let _ = std::os::unix::fs::symlink("store/src-77aa01", dir.join(input_name));
    } else {
        std::fs::write(dir.join(input_name), source).unwrap();
    }
    let mut st = Staged { ast_bytes: None, bc_bytes: None, exec: None, failed: None, children: 0, faults_fired: 0, budget_exceeded: false, calls: [[0; 4]; 3], hard_fired: [0; 3], exits: [None, None, None], crashes_fired: 0, overlaps_run: 0 };
    let ext = t.format.ext();
    if t.wrapper {
        // bash <repo>/fml run prog.fml with PARSER/COMPILER/INTERPRETER pointing at the binary
        let bin = super::proc::binary(t.profile);
        // the wrapper takes the program from a file argument or, when none is given, from stdin (artefacts are then `program.*`)
        let via_stdin = t.parse_stdin;
        let script = work::repo_root().join("fml");
        let mut c = if via_stdin { Child::new(t.profile, &[script.to_str().unwrap(), "run"]) } else { Child::new(t.profile, &[script.to_str().unwrap(), "run", "prog.fml"]) };
        if via_stdin { c.stdin = In::File("prog.fml".into()); }
        let stem = if via_stdin { "program" } else { "prog" };
        c.program = Some("/bin/bash".into());
        let b = bin.to_str().unwrap().to_string();
        c.env = vec![("PARSER".into(), b.clone()), ("COMPILER".into(), b.clone()), ("INTERPRETER".into(), b), ("PATH".into(), "/usr/bin:/bin".into())];
        c.shim = stage_shim(t, 2, source.len());
        let r = run_child(&dir, &c);
        st.children += 4;
        // Where the script keeps its intermediates is its own business (next to the source today; a scratch directory would do):
        // they are examined when they are there, and the verdict on the wrapper is its final output and status against `run`.
        // Only a wrapper that ends unsuccessfully while `run` succeeds is attributed to the stage whose artefact is missing.
        st.ast_bytes = std::fs::read(dir.join(format!("{}.json", stem))).ok().filter(|b| !b.is_empty());
        st.bc_bytes = std::fs::read(dir.join(format!("{}.bc", stem))).ok().filter(|b| !b.is_empty());
        if !r.exit.is_success() && (st.ast_bytes.is_none() || st.bc_bytes.is_none()) && (dir.join(format!("{}.json", stem)).exists() || dir.join(format!("{}.bc", stem)).exists()) {
            st.failed = Some(StageFail { stage: if st.ast_bytes.is_none() { "parse" } else { "compile" }, exit: r.exit.clone(), message: r.stderr_masked(400) });
        }
        st.exec = Some(r);
        let _ = std::fs::remove_dir_all(&dir);
        return st;
    }
    // ---- parse ------------------------------------------------------------------------------
    let mut args: Vec<String> = vec!["parse".into()];
    if !t.parse_stdin { args.push(input_name.to_string()); }
    if let Some(f) = &t.parse_flag {
        if st.children % 2 == 0 && f.len() % 2 == 0 { args.push(format!("--format={}", f)); } else { args.push("--format".into()); args.push(f.clone()); }
    }
    let ast_location: Option<String> = match t.parse_out {
        Chan::OFile => {
            if t.stale { std::fs::write(dir.join(format!("{}tree.{}", pre, ext)), "stale ".repeat(source.len() * 4 + 200)).unwrap(); }
            args.push("-o".into());
            args.push(format!("{}tree.{}", pre, ext));
            Some(format!("{}tree.{}", pre, ext))
        }
        Chan::ODir => {
            std::fs::create_dir_all(dir.join("astdir")).unwrap();
            args.push("-o".into());
            args.push("astdir".into());
            Some("astdir/".to_string()) // the tool derives the name: discovered by listing the (initially empty) directory
        }
        Chan::StdoutFile => Some(format!("redirected.{}", ext)),
        Chan::StdoutPipe => None,
        Chan::DevStdout => { args.push("-o".into()); args.push("/dev/stdout".into()); None }
    };
    let argv: Vec<&str> = args.iter().map(|s| s.as_str()).collect();
    let mut c = stage_child(t, &argv);
    if t.parse_stdin { c.stdin = In::File(input_name.to_string()); }
    match t.parse_out {
        Chan::StdoutFile => c.stdout = Out::File(format!("redirected.{}", ext)),
        Chan::StdoutPipe => c.stdout = Out::Pipe,
        _ => c.stdout = Out::Pipe,
    }
    c.shim = stage_shim(t, 0, source.len());
    crashed_predecessor(t, 0, &dir, &c, &mut st);
    let astdir_before = snapshot_dir(&dir.join("astdir"));
    let r = run_stage(t, 0, &dir, &c, &mut st);
    st.children += 1;
    st.calls[0] = count_calls(&r.trace);
    st.hard_fired[0] = count_hard(&r.trace);
    st.exits[0] = Some(r.exit.clone());
    st.faults_fired += count_faults(&r.trace);
    st.budget_exceeded |= r.budget_exceeded();
    if !r.exit.is_success() {
        st.failed = Some(StageFail { stage: "parse", exit: r.exit.clone(), message: r.stderr_masked(400) });
        let _ = std::fs::remove_dir_all(&dir);
        return st;
    }
    // -o DIR: exactly one file must have appeared
    let ast_location: Option<String> = match ast_location {
        Some(p) if p.ends_with('/') => {
            let names = changed_since(&dir.join("astdir"), &astdir_before);
            if names.len() != 1 {
                st.failed = Some(StageFail { stage: "parse", exit: r.exit.clone(), message: format!("exit 0 with -o DIR, but {} files of the directory are new or changed: {:?}", names.len(), names) });
                let _ = std::fs::remove_dir_all(&dir);
                return st;
            }
            Some(format!("astdir/{}", names[0]))
        }
        other => other,
    };
    let ast_bytes = match &ast_location {
        Some(p) => match std::fs::read(dir.join(p)) {
            Ok(b) => b,
            Err(_) => {
                st.failed = Some(StageFail { stage: "parse", exit: r.exit.clone(), message: format!("exit 0 but expected output file {} does not exist", p) });
                let _ = std::fs::remove_dir_all(&dir);
                return st;
            }
        },
        None => r.stdout.clone(),
    };
    st.ast_bytes = Some(ast_bytes.clone());
    // ---- compile ----------------------------------------------------------------------------
    // the AST file the compile stage reads: the one parse left behind, or the captured pipe bytes
    let ast_file = match &ast_location {
        Some(p) => p.clone(),
        None => {
            let p = format!("piped.{}", if t.compile_flag.is_some() { "ast" } else { ext });
            std::fs::write(dir.join(&p), &ast_bytes).unwrap();
            p
        }
    };
    if t.path_style == 3 && !t.compile_stdin && !ast_file.contains('/') {
        // the AST file moves into the store; its name stays behind as a symbolic link
        let _ = std::fs::create_dir_all(dir.join("store"));
        if std::fs::rename(dir.join(&ast_file), dir.join("store/obj-4f1d9a2c")).is_ok() { let _ = std::os::unix::fs::symlink("store/obj-4f1d9a2c", dir.join(&ast_file)); }
    }
    let mut args: Vec<String> = vec!["compile".into()];
    if !t.compile_stdin { args.push(ast_file.clone()); }
    if let Some(f) = &t.compile_flag { args.push("--input-format".into()); args.push(f.clone()); }
    let bc_location: Option<String> = match t.compile_out {
        Chan::OFile => {
            if t.stale { std::fs::write(dir.join(&image_name), vec![0xEEu8; source.len() * 8 + 4096]).unwrap(); }
            args.push("-o".into());
            args.push(image_name.clone());
            Some(image_name.clone())
        }
        Chan::ODir => {
            std::fs::create_dir_all(dir.join("bcdir")).unwrap();
            args.push("-o".into());
            args.push("bcdir".into());
            Some("bcdir/".to_string())
        }
        Chan::StdoutFile => Some("redirected.bc".into()),
        Chan::StdoutPipe => None,
        Chan::DevStdout => { args.push("-o".into()); args.push("/dev/stdout".into()); None }
    };
    let argv: Vec<&str> = args.iter().map(|s| s.as_str()).collect();
    let mut c = stage_child(t, &argv);
    if t.compile_stdin { c.stdin = In::File(ast_file.clone()); }
    if t.compile_out == Chan::StdoutFile { c.stdout = Out::File("redirected.bc".into()); }
    c.shim = stage_shim(t, 1, source.len());
    crashed_predecessor(t, 1, &dir, &c, &mut st);
    let bcdir_before = snapshot_dir(&dir.join("bcdir"));
    let r = run_stage(t, 1, &dir, &c, &mut st);
    st.children += 1;
    st.calls[1] = count_calls(&r.trace);
    st.hard_fired[1] = count_hard(&r.trace);
    st.exits[1] = Some(r.exit.clone());
    st.faults_fired += count_faults(&r.trace);
    st.budget_exceeded |= r.budget_exceeded();
    if !r.exit.is_success() {
        st.failed = Some(StageFail { stage: "compile", exit: r.exit.clone(), message: r.stderr_masked(400) });
        let _ = std::fs::remove_dir_all(&dir);
        return st;
    }
    let bc_location: Option<String> = match bc_location {
        Some(p) if p.ends_with('/') => {
            let names = changed_since(&dir.join("bcdir"), &bcdir_before);
            if names.len() != 1 {
                st.failed = Some(StageFail { stage: "compile", exit: r.exit.clone(), message: format!("exit 0 with -o DIR, but {} files of the directory are new or changed: {:?}", names.len(), names) });
                let _ = std::fs::remove_dir_all(&dir);
                return st;
            }
            Some(format!("bcdir/{}", names[0]))
        }
        other => other,
    };
    let bc_bytes = match &bc_location {
        Some(p) => match std::fs::read(dir.join(p)) {
            Ok(b) => b,
            Err(_) => {
                st.failed = Some(StageFail { stage: "compile", exit: r.exit.clone(), message: format!("exit 0 but expected output file {} does not exist", p) });
                let _ = std::fs::remove_dir_all(&dir);
                return st;
            }
        },
        None => r.stdout.clone(),
    };
    st.bc_bytes = Some(bc_bytes.clone());
    // ---- execute ----------------------------------------------------------------------------
    let bc_file = match &bc_location {
        Some(p) => p.clone(),
        None => { std::fs::write(dir.join("piped.bc"), &bc_bytes).unwrap(); "piped.bc".to_string() }
    };
    let mut c = if t.exec_stdin { stage_child(t, &["execute"]) } else { stage_child(t, &["execute", bc_file.as_str()]) };
    if t.exec_stdin { c.stdin = In::File(bc_file.clone()); }
    c.shim = stage_shim(t, 2, source.len());
    if !t.guest_stdout_fault.is_empty() {
        if let Some(sh) = c.shim.as_mut() { sh.plan = if sh.plan.is_empty() { t.guest_stdout_fault.clone() } else { format!("{};{}", sh.plan, t.guest_stdout_fault) }; }
    }
    let r = run_child(&dir, &c);
    st.children += 1;
    st.calls[2] = count_calls(&r.trace);
    st.hard_fired[2] = count_hard(&r.trace);
    st.exits[2] = Some(r.exit.clone());
    st.faults_fired += count_faults(&r.trace);
    st.budget_exceeded |= r.budget_exceeded();
    st.exec = Some(r);
    let _ = std::fs::remove_dir_all(&dir);
    st
}

/// Files of `d` with their contents: taken just before a stage runs, so that its output can be told from what was there already
/// (leftovers of a killed earlier invocation are durable state, not output of this one).
fn snapshot_dir(d: &std::path::Path) -> Vec<(String, Vec<u8>, Option<std::time::SystemTime>)> {
    list_dir(d).into_iter().map(|n| { let b = std::fs::read(d.join(&n)).unwrap_or_default(); let m = std::fs::metadata(d.join(&n)).and_then(|m| m.modified()).ok(); (n, b, m) }).collect()
}

/// Names in `d` that are new, or whose contents or modification time changed since `before` (a file rewritten with the very
/// same bytes is still this stage's output).
fn changed_since(d: &std::path::Path, before: &[(String, Vec<u8>, Option<std::time::SystemTime>)]) -> Vec<String> {
    list_dir(d).into_iter().filter(|n| {
        let now = std::fs::read(d.join(n)).unwrap_or_default();
        let m = std::fs::metadata(d.join(n)).and_then(|m| m.modified()).ok();
        !before.iter().any(|(k, b, t)| k == n && *b == now && *t == m)
    }).collect()
}

fn list_dir(d: &std::path::Path) -> Vec<String> {
    let mut v: Vec<String> = std::fs::read_dir(d).map(|rd| rd.filter_map(|e| e.ok()).map(|e| e.file_name().to_string_lossy().to_string()).collect()).unwrap_or_default();
    v.sort();
    v
}

/// A batch into one output directory: two different programs whose file names differ only in an inner
/// component (`job.1.fml`, `job.2.fml`) are parsed with -o DIR and compiled with -o DIR. Each stage must leave
/// one file per program, and the first program's file must still be the first program after the second
/// went through — otherwise a later stage is handed a different program.
pub fn batch_collision(a: &Prepared, b: &Prepared, f: Fmt, profile: Profile, seed: u64) -> Option<(String, String)> {
    let dir = scratch_dir();
    let cleanup = |d: &std::path::Path| { let _ = std::fs::remove_dir_all(d); };
    std::fs::write(dir.join("job.1.fml"), &a.source).unwrap();
    std::fs::write(dir.join("job.2.fml"), &b.source).unwrap();
    std::fs::create_dir_all(dir.join("asts")).unwrap();
    std::fs::create_dir_all(dir.join("bcs")).unwrap();
    let run = |args: &[&str]| {
        let mut c = Child::new(profile, args);
        c.shim = Some(ShimCfg { seed, ..Default::default() });
        run_child(&dir, &c)
    };
    let r1 = run(&["parse", "job.1.fml", "--format", f.ext(), "-o", "asts"]);
    let after1 = list_dir(&dir.join("asts"));
    // what the first program's file holds *before* the second program arrives: only a change caused by the second one is a
    // collision (a file that never reloaded correctly is the single pipelines' O1, not this oracle's)
    let first_ok_before = after1.len() == 1 && {
        let text = std::fs::read_to_string(dir.join("asts").join(&after1[0])).unwrap_or_default();
        catch(|| f.serializer().deserialize(&text).ok()).ok().flatten().as_ref() == Some(&a.ast)
    };
    if !first_ok_before { cleanup(&dir); return None; }
    let r2 = run(&["parse", "job.2.fml", "--format", f.ext(), "-o", "asts"]);
    let after2 = list_dir(&dir.join("asts"));
    if !r1.exit.is_success() || !r2.exit.is_success() || after1.len() != 1 { cleanup(&dir); return None; } // refusal: decided by the single-program pipelines
    if after2.len() != 2 {
        cleanup(&dir);
        return Some(("O6:batch_outputs_collide".into(), format!("parse -o DIR of job.1.fml and job.2.fml ({}) left {:?}: the second program replaced the first", f.ext(), after2)));
    }
    let first = after1[0].clone();
    let text = std::fs::read_to_string(dir.join("asts").join(&first)).unwrap_or_default();
    let reload = catch(|| f.serializer().deserialize(&text).ok()).ok().flatten();
    if reload.as_ref() != Some(&a.ast) {
        cleanup(&dir);
        return Some(("O6:batch_outputs_collide".into(), format!("asts/{} no longer holds the first program's AST after the second program was parsed into the same directory", first)));
    }
    let second = after2.iter().find(|n| **n != first).cloned().unwrap_or_default();
    let c1 = run(&["compile", &format!("asts/{}", first), "-o", "bcs"]);
    let bc_after1 = list_dir(&dir.join("bcs"));
    if bc_after1.len() == 1 && std::fs::read(dir.join("bcs").join(&bc_after1[0])).unwrap_or_default() != a.reference { cleanup(&dir); return None; } // O2's business
    let c2 = run(&["compile", &format!("asts/{}", second), "-o", "bcs"]);
    let bc_after2 = list_dir(&dir.join("bcs"));
    if !c1.exit.is_success() || !c2.exit.is_success() || bc_after1.len() != 1 { cleanup(&dir); return None; }
    if bc_after2.len() != 2 {
        cleanup(&dir);
        return Some(("O6:batch_outputs_collide".into(), format!("compile -o DIR of {} and {} left {:?}: the second image replaced the first", first, second, bc_after2)));
    }
    let bytes = std::fs::read(dir.join("bcs").join(&bc_after1[0])).unwrap_or_default();
    cleanup(&dir);
    if bytes != a.reference {
        return Some(("O6:batch_outputs_collide".into(), format!("bcs/{} no longer holds the first program's image after the second program was compiled into the same directory", bc_after1[0])));
    }
    None
}

pub fn run_direct(source: &str, profile: Profile, seed: u64) -> ChildResult {
    run_direct_with(source, profile, seed, "")
}

/// `fml parse x.fml --format F | fml compile --input-format F | fml execute` with all three stages alive at once on kernel
/// pipes, each under its own transient plan. Returns the three results (parse, compile, execute).
pub fn run_live(source: &str, t: &Tuple) -> Vec<ChildResult> {
    let dir = scratch_dir();
    std::fs::write(dir.join("prog.fml"), source).unwrap();
    let f = t.parse_flag.clone().unwrap_or_else(|| t.format.ext().to_string());
    let mut a = if t.parse_stdin { Child::new(t.profile, &["parse", "--format", &f]) } else { Child::new(t.profile, &["parse", "prog.fml", "--format", &f]) };
    if t.parse_stdin { a.stdin = In::File("prog.fml".into()); }
    let mut b = Child::new(t.profile, &["compile", "--input-format", &f]);
    let mut c = Child::new(t.profile, &["execute"]);
    a.shim = stage_shim(t, 0, source.len());
    b.shim = stage_shim(t, 1, source.len());
    c.shim = stage_shim(t, 2, source.len());
    let r = run_live_pipeline(&dir, &[a, b, c]);
    let _ = std::fs::remove_dir_all(&dir);
    r
}

pub fn run_direct_with(source: &str, profile: Profile, seed: u64, plan: &str) -> ChildResult {
    let dir = scratch_dir();
    std::fs::write(dir.join("prog.fml"), source).unwrap();
    let mut c = Child::new(profile, &["run", "prog.fml"]);
    c.shim = Some(ShimCfg { seed, plan: plan.to_string(), ..Default::default() });
    let r = run_child(&dir, &c);
    let _ = std::fs::remove_dir_all(&dir);
    r
}

#[derive(Clone, Debug)]
pub struct Case {
    pub spec: ProgSpec,
    pub tuple: Tuple,
}

impl Case {
    pub fn to_json(&self) -> Value {
        json!({"engine": ENGINE, "program": self.spec.to_json(), "tuple": self.tuple.to_json()})
    }
    pub fn from_json(v: &Value) -> Option<Case> {
        Some(Case { spec: ProgSpec::from_json(v.get("program")?)?, tuple: Tuple::from_json(v.get("tuple")?)? })
    }
}

pub struct Verdict {
    pub oracle: String,
    pub detail: String,
    pub signature: Value,
}

/// In-process O1: every format reloads to the identical AST.
pub fn roundtrip_in_process(prep: &Prepared, f: Fmt) -> Result<(), String> {
    let text = match catch(|| f.serializer().serialize(&prep.ast).map_err(|e| format!("{:#}", e))) {
        Ok(Ok(t)) => t,
        Ok(Err(e)) => return Err(format!("serialize: {}", e)),
        Err(p) => return Err(format!("serialize panicked: {}", p)),
    };
    match catch(|| f.serializer().deserialize(&text).map_err(|e| format!("{:#}", e))) {
        Ok(Ok(back)) => {
            if back == prep.ast { Ok(()) } else { Err("reloaded AST differs from the original".into()) }
        }
        Ok(Err(e)) => Err(format!("deserialize: {}", e)),
        Err(p) => Err(format!("deserialize panicked: {}", p)),
    }
}

pub fn judge(prep: &Prepared, t: &Tuple, direct: &ChildResult, st: &Staged) -> Option<Verdict> {
    let sig = |oracle: &str, extra: Value| {
        let mut m = json!({"engine": ENGINE, "oracle": oracle, "format": if t.wrapper { "json" } else { t.format.ext() }, "ast_depth": prep.depth,
                           "json_nesting": prep.json_nesting, "lisp_nesting": prep.lisp_nesting});
        if let (Some(a), Some(b)) = (m.as_object_mut(), extra.as_object()) {
            for (k, v) in b { a.insert(k.clone(), v.clone()); }
        }
        m
    };
    if st.budget_exceeded {
        return Some(Verdict { oracle: "O5:no_progress_within_call_budget".into(), detail: "a stage exhausted its read/write call budget under transient faults".into(), signature: sig("O5", json!({})) });
    }
    if direct.exit == Exit::Timeout || st.exec.as_ref().map(|e| e.exit == Exit::Timeout).unwrap_or(false) {
        return None;
    }
    if let Some(f) = &st.failed {
        if f.exit == Exit::Timeout { return None; }
        // run gets past parsing and compiling (prepare succeeded), so no stage may refuse
        return Some(Verdict {
            oracle: format!("O4:{}_stage_refuses_program_that_run_accepts", f.stage),
            detail: format!("{} stage ({}{}) ended with {}: {}", f.stage, t.format.ext(), if t.wrapper { ", wrapper script" } else { "" }, f.exit.show(), first_line(&f.message, 160)),
            signature: sig("O4", json!({"stage": f.stage, "message": f.message, "died_by_signal": f.exit.is_native_crash()})),
        });
    }
    // O1 on the bytes the CLI produced
    if let Some(ast_bytes) = &st.ast_bytes {
        let fmt = if t.wrapper { Fmt::Json } else { t.format };
        let text = String::from_utf8_lossy(ast_bytes).to_string();
        match catch(|| fmt.serializer().deserialize(&text).map_err(|e| format!("{:#}", e))) {
            Ok(Ok(back)) => {
                if back != prep.ast {
                    return Some(Verdict { oracle: "O1:ast_reloads_as_different_tree".into(), detail: format!("the {} file written by `fml parse` deserializes to a different AST", fmt.ext()), signature: sig("O1", json!({})) });
                }
            }
            Ok(Err(e)) => return Some(Verdict { oracle: "O1:ast_file_does_not_reload".into(), detail: first_line(&e, 160), signature: sig("O1", json!({"message": e})) }),
            Err(p) => return Some(Verdict { oracle: "O1:ast_file_does_not_reload".into(), detail: first_line(&p, 160), signature: sig("O1", json!({"message": p})) }),
        }
    }
    // O2 compiled bytes identical to what run compiles
    if let Some(bc) = &st.bc_bytes {
        if bc != &prep.reference {
            let at = first_difference(bc, &prep.reference).unwrap_or(0);
            return Some(Verdict { oracle: "O2:staged_bytecode_differs_from_what_run_compiles".into(),
                detail: format!("{} via {} -> {}: {} bytes vs {} bytes, first difference at offset {}", t.format.ext(), t.parse_out.name(), t.compile_out.name(), bc.len(), prep.reference.len(), at),
                signature: sig("O2", json!({})) });
        }
    }
    // O3 behaviour
    if let Some(e) = &st.exec {
        if t.wrapper && st.failed.is_none() && direct.exit.is_success() && e.exit.is_clean_failure() && e.stdout.is_empty() && prep.json_nesting >= 128 {
            // the wrapper keeps its intermediates out of sight and ends unsuccessfully on a program whose JSON form is nested beyond
            // the deserializer's limit: that is its compile stage refusing (the recorded finding decides whether this is news)
            let msg = e.stderr_masked(400);
            return Some(Verdict { oracle: "O4:compile_stage_refuses_program_that_run_accepts".into(),
                detail: format!("compile stage (json, wrapper script) ended with {}: {}", e.exit.show(), first_line(&msg, 160)),
                signature: sig("O4", json!({"stage": "compile", "message": msg, "died_by_signal": false})) });
        }
        if e.exit != direct.exit || e.stdout != direct.stdout {
            let at = first_difference(&e.stdout, &direct.stdout).unwrap_or(0);
            return Some(Verdict { oracle: "O3:staged_execution_differs_from_run".into(),
                detail: format!("execute: {} with {} bytes of stdout; run: {} with {} bytes; first difference at offset {}", e.exit.show(), e.stdout.len(), direct.exit.show(), direct.stdout.len(), at),
                signature: sig("O3", json!({})) });
        }
        if e.stderr.is_empty() != direct.stderr.is_empty() && !t.wrapper {
            return Some(Verdict { oracle: "O3:staged_diagnostics_differ_from_run".into(), detail: "stderr empty in one and not the other".into(), signature: sig("O3", json!({})) });
        }
    }
    None
}

/// Where a hard fault can be placed in stage `stage` of tuple `t`: (class letter, number of calls the fault-free stage made).
fn hard_sites(t: &Tuple, stage: usize, calls: &[[u64; 4]; 3]) -> Vec<(char, u64)> {
    let mut v = Vec::new();
    let c = calls[stage];
    // output side: parse and compile only (an unwritable stdout of the *guest* is no property's subject)
    if stage < 2 {
        let out = if stage == 0 { &t.parse_out } else { &t.compile_out };
        match out { Chan::OFile | Chan::ODir | Chan::DevStdout => v.push(('f', c[1])), Chan::StdoutFile | Chan::StdoutPipe => v.push(('o', c[0])) }
    }
    // input side
    let stdin = match stage { 0 => t.parse_stdin, 1 => t.compile_stdin, _ => t.exec_stdin };
    if stdin { v.push(('i', c[2])); } else { v.push(('r', c[3])); }
    v.into_iter().filter(|(_, n)| *n > 0).collect()
}

/// A hard-fault plan for one stage: the disk fills up (short write, then ENOSPC-like error), the medium fails (EIO on a read,
/// possibly after a short delivery), a quota is hit — placed inside the stage's own I/O, biased to its last calls (where the
/// implicit flush of a buffered writer happens).
pub fn hard_plan(rng: &mut Rng, sites: &[(char, u64)]) -> String {
    let (cls, n) = *rng.pick(sites);
    let at = match rng.below(4) { 0 => 0, 1 | 2 => n - 1, _ => rng.below(n) };
    let is_write = cls == 'o' || cls == 'f';
    let errno = if is_write { *rng.pick(&[28u32, 28, 5, 122, 27, 32]) } else { 5 };
    match rng.below(4) {
        // the error arrives at call `at`
        0 => format!("{}:{}:x:{}", cls, at, errno),
        // ... once only: the next call would succeed again
        3 => format!("{}:{}:y:{}", cls, at, errno),
        // call `at` is accepted only in part (a seeded number of bytes), the next call fails: what a filling disk looks like
        1 => format!("{}:{}:s:{};{}:{}:x:{}", cls, at, rng.pick(&[1u32, 7, 60, 100, 119, 500, 1000, 4000, 8000]), cls, at + 1, errno),
        // all but the last byte of call `at`, then the error
        _ => format!("{}:{}:b:0;{}:{}:x:{}", cls, at, cls, at + 1, errno),
    }
}

/// The narrow oracle under a hard I/O error (DESIGN §3.5): the faulted stage may fail, and then nothing more is claimed; but a
/// stage that reports success must have handed over exactly the program it was given — never a truncated, empty or different one.
pub fn judge_hard(prep: &Prepared, t: &Tuple, direct: &ChildResult, st: &Staged) -> Option<Verdict> {
    let hs = t.hard_stage.unwrap_or(0);
    let sig = |oracle: &str, extra: Value| {
        let mut m = json!({"engine": ENGINE, "oracle": oracle, "format": t.format.ext(), "ast_depth": prep.depth, "hard_stage": hs,
                           "json_nesting": prep.json_nesting, "lisp_nesting": prep.lisp_nesting});
        if let (Some(a), Some(b)) = (m.as_object_mut(), extra.as_object()) {
            for (k, v) in b { a.insert(k.clone(), v.clone()); }
        }
        m
    };
    let stage_name = ["parse", "compile", "execute"];
    if st.exits.iter().flatten().any(|e| *e == Exit::Timeout) || direct.exit == Exit::Timeout { return None; }
    if st.hard_fired[hs] == 0 { return None; } // the fault never fired (the stage made fewer calls this time): nothing was tested
    // a stage that exits 0 without leaving its output at all
    if let Some(f) = &st.failed {
        if f.exit.is_success() {
            return Some(Verdict { oracle: "O7:success_reported_after_io_error_but_output_incomplete".into(),
                detail: format!("{} stage exited 0 after a hard I/O error ({}) but {}", f.stage, t.plans[hs], first_line(&f.message, 120)), signature: sig("O7", json!({"stage": f.stage})) });
        }
    }
    if st.exits[0] == Some(Exit::Code(0)) {
        if let Some(ast_bytes) = &st.ast_bytes {
            let text = String::from_utf8_lossy(ast_bytes).to_string();
            let back = catch(|| t.format.serializer().deserialize(&text).ok()).ok().flatten();
            match back {
                Some(a) if a == prep.ast => {}
                Some(_) => return Some(Verdict { oracle: "O7:success_reported_after_io_error_but_a_different_program_handed_over".into(),
                    detail: format!("parse stage exited 0 after a hard I/O error ({}); the {} file it left ({} bytes) is a valid AST of a different program", t.plans[hs], t.format.ext(), ast_bytes.len()),
                    signature: sig("O7", json!({"stage": "parse"})) }),
                None => return Some(Verdict { oracle: "O7:success_reported_after_io_error_but_output_incomplete".into(),
                    detail: format!("parse stage exited 0 after a hard I/O error ({}); the {} file it left ({} bytes) does not reload", t.plans[hs], t.format.ext(), ast_bytes.len()),
                    signature: sig("O7", json!({"stage": "parse"})) }),
            }
        }
    }
    if st.exits[1] == Some(Exit::Code(0)) {
        if let Some(bc) = &st.bc_bytes {
            if bc != &prep.reference {
                return Some(Verdict { oracle: "O7:success_reported_after_io_error_but_a_different_program_handed_over".into(),
                    detail: format!("compile stage exited 0 after a hard I/O error ({}) in the {} stage; its image has {} bytes, the reference {} bytes", t.plans[hs], stage_name[hs], bc.len(), prep.reference.len()),
                    signature: sig("O7", json!({"stage": "compile"})) });
            }
        }
    }
    if let Some(e) = &st.exec {
        if e.exit.is_success() && (!direct.exit.is_success() || e.stdout != direct.stdout) {
            return Some(Verdict { oracle: "O7:success_reported_after_io_error_but_a_different_program_ran".into(),
                detail: format!("execute exited 0 after a hard I/O error ({}) in the {} stage with {} bytes of stdout; run: {} with {} bytes", t.plans[hs], stage_name[hs], e.stdout.len(), direct.exit.show(), direct.stdout.len()),
                signature: sig("O7", json!({"stage": "execute"})) });
        }
    }
    None
}

/// Sources the in-process front end does not accept (a foreign first line, a byte-order mark, ...): no reference bytes exist, but
/// the command line still has to agree with itself — what `fml run` accepts and runs, the staged route accepts and runs alike.
pub fn cli_only_judgement(source: &str, t: &Tuple) -> Option<Verdict> {
    let direct = run_direct(source, t.profile, 17);
    if !direct.exit.is_success() { return None; } // run does not accept it either: nothing is claimed
    let st = run_staged(source, t);
    let sig = |stage: &str, msg: &str| json!({"engine": ENGINE, "oracle": "O4", "format": t.format.ext(), "stage": stage, "message": msg, "died_by_signal": false, "ast_depth": 0, "json_nesting": 0, "lisp_nesting": 0});
    if let Some(f) = &st.failed {
        if f.exit == Exit::Timeout { return None; }
        return Some(Verdict { oracle: format!("O4:{}_stage_refuses_program_that_run_accepts", f.stage), detail: format!("{} stage ({}) ended with {} on a source that `fml run` runs with exit 0: {}", f.stage, t.format.ext(), f.exit.show(), first_line(&f.message, 140)), signature: sig(f.stage, &f.message) });
    }
    if let Some(e) = &st.exec {
        if e.exit != Exit::Timeout && (e.exit != direct.exit || e.stdout != direct.stdout) {
            return Some(Verdict { oracle: "O3:staged_execution_differs_from_run".into(), detail: format!("execute: {} with {} bytes of stdout; run: {} with {} bytes", e.exit.show(), e.stdout.len(), direct.exit.show(), direct.stdout.len()), signature: sig("execute", "") });
        }
    }
    None
}

pub fn replay_case(case: &Case) -> Result<Option<Verdict>, String> {
    let source = case.spec.source().ok_or("no source")?;
    let prep = match prepare(&source) { Some(p) => p, None => return Ok(cli_only_judgement(&source, &case.tuple)) };
    if case.tuple.live {
        let direct = run_direct(&source, case.tuple.profile, 17);
        let r = run_live(&source, &case.tuple);
        if r.iter().any(|x| x.exit == Exit::Timeout) { return Ok(None); }
        let bad = !r[0].exit.is_success() || !r[1].exit.is_success() || r[2].exit != direct.exit || r[2].stdout != direct.stdout;
        return Ok(if bad { Some(Verdict { oracle: "O8:live_pipeline_differs_from_run".into(), detail: format!("exits {} {} {}; {} bytes of stdout vs {} from run", r[0].exit.show(), r[1].exit.show(), r[2].exit.show(), r[2].stdout.len(), direct.stdout.len()),
            signature: json!({"engine": ENGINE, "oracle": "O8", "format": case.tuple.format.ext(), "stage": "live", "ast_depth": prep.depth, "json_nesting": prep.json_nesting, "lisp_nesting": prep.lisp_nesting}) }) } else { None });
    }
    let direct = run_direct_with(&source, case.tuple.profile, case.tuple.hash_seed, &case.tuple.guest_stdout_fault);
    let st = run_staged(&source, &case.tuple);
    if case.tuple.hard_stage.is_some() { return Ok(judge_hard(&prep, &case.tuple, &direct, &st)); }
    Ok(judge(&prep, &case.tuple, &direct, &st))
}

fn class_of(o: &str) -> String { o.split(':').next().unwrap_or(o).to_string() }

pub fn minimise(case: &Case, oracle: &str) -> Case {
    let want = class_of(oracle);
    let valid = |t: &Tuple| (t.parse_flag.is_some() || t.parse_out == Chan::OFile) && (t.compile_flag.is_some() || !t.compile_stdin);
    let still = |c: &Case| valid(&c.tuple) && matches!(replay_case(c), Ok(Some(v)) if class_of(&v.oracle) == want);
    let mut best = case.clone();
    for i in 0..3 {
        if !best.tuple.plans[i].is_empty() {
            let mut c = best.clone();
            c.tuple.plans[i] = String::new();
            if still(&c) { best = c; }
        }
    }
    // towards the plain tuple, one field at a time
    let plain = Tuple::plain(best.tuple.format, best.tuple.profile);
    macro_rules! try_field {
        ($f:ident) => {
            if best.tuple.$f != plain.$f {
                let mut c = best.clone();
                c.tuple.$f = plain.$f.clone();
                if still(&c) { best = c; }
            }
        };
    }
    try_field!(wrapper);
    try_field!(wrapper_stages);
    try_field!(crash_before);
    try_field!(overlap);
    try_field!(deleted_cwd);
    try_field!(path_style);
    try_field!(guest_stdout_fault);
    try_field!(exec_stdin);
    try_field!(compile_out);
    try_field!(compile_stdin);
    try_field!(compile_flag);
    try_field!(parse_stdin);
    // parse_out and parse_flag are coupled (a directory has no extension): move them together
    if best.tuple.parse_out != Chan::OFile || best.tuple.parse_flag != plain.parse_flag {
        let mut c = best.clone();
        c.tuple.parse_out = Chan::OFile;
        c.tuple.parse_flag = plain.parse_flag.clone();
        if c.tuple.compile_stdin == false || c.tuple.compile_flag.is_some() {
            if still(&c) { best = c; }
        }
    }
    if let ProgSpec::Stmts(stmts) = &best.spec {
        let mut stmts = stmts.clone();
        let mut j = stmts.len();
        while j > 0 {
            j -= 1;
            if stmts.len() <= 1 { break; }
            let mut cand = stmts.clone();
            cand.remove(j);
            let mut c = best.clone();
            c.spec = ProgSpec::Stmts(cand.clone());
            if still(&c) { stmts = cand; best = c; }
        }
    }
    best
}

// ------------------------------------------------------------------------------------------------
// W1s: nesting templates, depth 1..300

pub fn nesting_template(kind: usize, n: usize) -> String {
    match kind % 6 {
        0 => format!("{}print(\"deep ~\\n\", {}){}\n", "begin ".repeat(n), n, " end".repeat(n)),
        1 => format!("print(\"~\\n\", {}1{})\n", "1 + (".repeat(n), ")".repeat(n)),
        2 => format!("{}print(\"deep\\n\")\n", "if true then ".repeat(n)),
        3 => format!("function id(x) -> x;\nprint(\"~\\n\", {}1{})\n", "id(".repeat(n), ")".repeat(n)),
        4 => format!("let i = 0;\n{}i <- i + 1{};\nprint(\"~\\n\", i)\n", "while i < 1 do begin ".repeat(n.min(40)), " end".repeat(n.min(40))),
        _ => format!("print(\"~\\n\", {}0{})\n", "array(1, ".repeat(n.min(80)), ")".repeat(n.min(80))),
    }
}

struct Out1 {
    evaluations: u64,
    children: u64,
    faults: u64,
    distinct: Vec<u64>,
    counters: Vec<(String, u64)>,
    violations: Vec<(Case, Verdict)>,
    sample: Option<Value>,
}

fn exercise(name: &str, spec: &ProgSpec, rng: &mut Rng, n_tuples: usize, n_hard: usize) -> Out1 {
    let mut out = Out1 { evaluations: 0, children: 0, faults: 0, distinct: vec![], counters: vec![], violations: vec![], sample: None };
    let source = match spec.source() { Some(s) => s, None => return out };
    let prep = match prepare(&source) {
        Some(p) => p,
        None => { out.counters.push(("programs_not_accepted_by_run_no_claim".into(), 1)); return out; }
    };
    if work::qualify_scaled(name, spec, 150_000).is_none() {
        out.counters.push(("programs_skipped_step_budget".into(), 1));
        return out;
    }
    let digest = digest_bytes(source.as_bytes());
    // O1 in-process for all three formats
    for f in Fmt::ALL {
        out.evaluations += 1;
        if let Err(e) = roundtrip_in_process(&prep, f) {
            let t = Tuple::plain(f, Profile::Debug);
            out.violations.push((Case { spec: spec.clone(), tuple: t }, Verdict {
                oracle: "O1:format_does_not_reload_identical_ast_in_process".into(),
                detail: format!("{}: {}", f.ext(), first_line(&e, 160)),
                signature: json!({"engine": ENGINE, "oracle": "O1", "format": f.ext(), "ast_depth": prep.depth, "json_nesting": prep.json_nesting,
                                  "lisp_nesting": prep.lisp_nesting, "stage": "compile", "message": e, "died_by_signal": false}),
            }));
        }
    }
    let mut directs: Vec<(Profile, ChildResult)> = Vec::new();
    let mut tuples: Vec<Tuple> = Vec::new();
    // every format at least once per program, then random ones; the wrapper now and then
    if name.starts_with("boundary:") {
        tuples.push(Tuple::plain(*rng.pick(&Fmt::ALL), Profile::Release));
    } else {
        for f in Fmt::ALL { tuples.push(Tuple::random(rng, f)); }
    }
    while tuples.len() < n_tuples { let f = *rng.pick(&Fmt::ALL); tuples.push(Tuple::random(rng, f)); }
    if name.starts_with("scale:") && source.len() > 20_000 {
        // documents of hundreds of kilobytes into something that is not a regular file
        let mut t = Tuple::plain(*rng.pick(&Fmt::ALL), if rng.coin() { Profile::Debug } else { Profile::Release });
        t.parse_out = Chan::DevStdout; t.compile_stdin = true; t.compile_flag = t.parse_flag.clone(); t.compile_out = Chan::DevStdout; t.exec_stdin = true;
        tuples.push(t);
    }
    if !name.starts_with("boundary:") && rng.below(4) == 0 {
        let mut t = Tuple::plain(Fmt::Json, if rng.coin() { Profile::Debug } else { Profile::Release });
        t.wrapper = true;
        t.parse_stdin = rng.coin(); // program on the wrapper's stdin instead of a file argument
        tuples.push(t);
    }
    for mut t in tuples {
        if !t.wrapper && !name.starts_with("boundary:") && rng.below(6) == 0 {
            t.wrapper_stages = true;
            if t.input_name.contains(' ') { t.input_name = "job.1.fml".into(); } // the script documents that it splits arguments at blanks
        }
        if source.len() > 50_000 {
            // megabytes of AST delivered one byte per call cost minutes and prove nothing more than 64 bytes per call do
            for p in t.plans.iter_mut() { for k in ["1", "2", "3", "7"] { *p = p.replace(&format!(":l:{};", k), ":l:64;"); if p.ends_with(&format!(":l:{}", k)) { let n = p.len() - k.len(); p.truncate(n); p.push_str("64"); } } }
        }
        if !directs.iter().any(|(p, _)| *p == t.profile) {
            directs.push((t.profile, run_direct(&source, t.profile, 17)));
            out.children += 1;
        }
        let direct = &directs.iter().find(|(p, _)| *p == t.profile).unwrap().1;
        let st = run_staged(&source, &t);
        out.children += st.children;
        out.faults += st.faults_fired;
        out.evaluations += 1;
        out.distinct.push(digest_of(&(digest, &t)));
        out.counters.push((format!("format.{}", t.format.ext()), 1));
        out.counters.push((format!("parse_out.{}", t.parse_out.name()), 1));
        out.counters.push((format!("compile_out.{}", t.compile_out.name()), 1));
        if t.parse_flag.is_none() { out.counters.push(("format_inferred_from_output_extension".into(), 1)); }
        if t.compile_flag.is_none() { out.counters.push(("format_inferred_from_input_extension".into(), 1)); }
        if t.parse_stdin { out.counters.push(("parse_from_stdin".into(), 1)); }
        if t.compile_stdin { out.counters.push(("compile_from_stdin".into(), 1)); }
        if t.exec_stdin { out.counters.push(("execute_from_stdin".into(), 1)); }
        if t.wrapper { out.counters.push(("wrapper_script_runs".into(), 1)); }
        if t.wrapper_stages { out.counters.push(("pipelines_with_every_stage_through_the_wrapper_script".into(), 1)); }
        if t.stale { out.counters.push(("pipelines_over_stale_output_files".into(), 1)); }
        out.counters.push((format!("input_name.{}", t.input_name), 1));
        if st.faults_fired > 0 { out.counters.push(("pipelines_with_transient_faults_fired".into(), 1)); }
        if direct.exit.is_clean_failure() { out.counters.push(("programs_failing_at_run_time".into(), 1)); }
        if let Some(v) = judge(&prep, &t, direct, &st) {
            out.violations.push((Case { spec: spec.clone(), tuple: t.clone() }, v));
        } else if out.sample.is_none() && rng.below(20) == 0 {
            out.sample = Some(json!({"program": name, "program_brief": spec.brief(), "ast_depth": prep.depth, "tuple": t.to_json(), "transient_faults_fired": st.faults_fired,
                "ast_bytes": st.ast_bytes.as_ref().map(|b| b.len()), "bc_bytes": st.bc_bytes.as_ref().map(|b| b.len()), "exit": st.exec.as_ref().map(|e| e.exit.show())}));
        }
    }
    // ---- hard I/O errors inside one stage (disk fills up, medium fails): the narrow oracle ---------------------
    for _ in 0..n_hard {
        let f = *rng.pick(&Fmt::ALL);
        let mut t = Tuple::random(rng, f);
        t.plans = [String::new(), String::new(), String::new()];
        if !directs.iter().any(|(p, _)| *p == t.profile) {
            directs.push((t.profile, run_direct(&source, t.profile, 17)));
            out.children += 1;
        }
        let direct = &directs.iter().find(|(p, _)| *p == t.profile).unwrap().1;
        // the fault-free pipeline first: it says how many calls each stage makes on each class, so that the fault lands inside
        let clean = run_staged(&source, &t);
        out.children += clean.children;
        if clean.failed.is_some() || judge(&prep, &t, direct, &clean).is_some() { continue; } // the ordinary oracles' business
        let stage = rng.usize_below(3);
        let sites = hard_sites(&t, stage, &clean.calls);
        if sites.is_empty() { continue; }
        t.plans[stage] = hard_plan(rng, &sites);
        t.hard_stage = Some(stage);
        let st = run_staged(&source, &t);
        out.children += st.children;
        out.evaluations += 1;
        out.distinct.push(digest_of(&(digest, &t)));
        out.counters.push(("hard_fault_pipelines".into(), 1));
        if st.hard_fired[stage] > 0 {
            out.counters.push(("hard_fault_pipelines_in_which_the_error_fired".into(), 1));
            out.counters.push((format!("hard_fault.stage_{}.{}", ["parse", "compile", "execute"][stage], if t.plans[stage].starts_with('o') || t.plans[stage].starts_with('f') { "write" } else { "read" }), 1));
            let ex = st.exits[stage].clone();
            out.counters.push((format!("hard_fault.faulted_stage_{}", match ex { Some(Exit::Code(0)) => "exits_0", Some(Exit::Code(_)) => "fails_cleanly", Some(Exit::Signal(_)) => "dies_by_signal", _ => "other" }), 1));
        }
        if let Some(v) = judge_hard(&prep, &t, direct, &st) {
            out.violations.push((Case { spec: spec.clone(), tuple: t.clone() }, v));
        }
    }
    // ---- a live shell pipeline: all three stages alive at once on kernel pipes -----------------------------------------------
    if !name.starts_with("boundary:") {
        let f = *rng.pick(&Fmt::ALL);
        let t = Tuple::random(rng, f);
        if !directs.iter().any(|(p, _)| *p == t.profile) {
            directs.push((t.profile, run_direct(&source, t.profile, 17)));
            out.children += 1;
        }
        let direct = directs.iter().find(|(p, _)| *p == t.profile).unwrap().1.clone();
        let r = run_live(&source, &t);
        out.children += 3;
        out.evaluations += 1;
        out.counters.push(("live_pipelines_all_stages_alive_at_once".into(), 1));
        let timeout = r.iter().any(|x| x.exit == Exit::Timeout) || direct.exit == Exit::Timeout;
        // a recorded finding (deserializer recursion limit) makes the compile stage refuse: that is the sequential pipelines' report
        let refused_as_known = !r[1].exit.is_success() && (prep.json_nesting >= 128 || prep.lisp_nesting >= 128 || prep.depth >= 60);
        if !timeout && !refused_as_known {
            let bad = if !r[0].exit.is_success() { Some(format!("parse stage ended with {}", r[0].exit.show())) }
                else if !r[1].exit.is_success() { Some(format!("compile stage ended with {}: {}", r[1].exit.show(), first_line(&r[1].stderr_masked(200), 120))) }
                else if r[2].exit != direct.exit || r[2].stdout != direct.stdout { Some(format!("execute: {} with {} bytes of stdout; run: {} with {} bytes", r[2].exit.show(), r[2].stdout.len(), direct.exit.show(), direct.stdout.len())) }
                else { None };
            if let Some(d) = bad {
                let mut tt = Tuple::plain(t.format, t.profile);
                tt.plans = t.plans.clone(); tt.parse_flag = t.parse_flag.clone(); tt.parse_stdin = t.parse_stdin; tt.hash_seed = t.hash_seed;
                tt.live = true;
                out.violations.push((Case { spec: spec.clone(), tuple: tt }, Verdict { oracle: "O8:live_pipeline_differs_from_run".into(), detail: format!("`fml parse | fml compile | fml execute` ({}) with all stages alive at once: {}", t.format.ext(), d),
                    signature: json!({"engine": ENGINE, "oracle": "O8", "format": t.format.ext(), "stage": "live", "ast_depth": prep.depth, "json_nesting": prep.json_nesting, "lisp_nesting": prep.lisp_nesting}) }));
            }
        }
    }
    // ---- the guest's stdout fails at one of its own writes, under run and under execute alike -----------------------
    // ---- and: an earlier invocation of one stage was killed in the middle of its output ------------------------------
    for round in 0..n_hard {
        let f = *rng.pick(&Fmt::ALL);
        let mut t = Tuple::random(rng, f);
        t.plans = [String::new(), String::new(), String::new()];
        if !directs.iter().any(|(p, _)| *p == t.profile) {
            directs.push((t.profile, run_direct(&source, t.profile, 17)));
            out.children += 1;
        }
        let direct = directs.iter().find(|(p, _)| *p == t.profile).unwrap().1.clone();
        if round % 2 == 0 {
            let n = direct.trace.lines().filter(|l| l.starts_with("W o ")).count() as u64;
            if n == 0 { continue; }
            let at = match rng.below(4) { 0 => 0, 1 | 2 => n - 1, _ => rng.below(n) };
            let errno = *rng.pick(&[28u32, 32, 5, 27]);
            t.guest_stdout_fault = if rng.coin() { format!("o:{}:x:{}", at, errno) } else { format!("o:{}:s:1;o:{}:x:{}", at, at + 1, errno) };
            let direct2 = run_direct_with(&source, t.profile, 17, &t.guest_stdout_fault);
            let st = run_staged(&source, &t);
            out.children += 1 + st.children;
            out.evaluations += 1;
            out.distinct.push(digest_of(&(digest, &t)));
            out.counters.push(("pipelines_with_the_same_stdout_failure_under_run_and_execute".into(), 1));
            if let Some(v) = judge(&prep, &t, &direct2, &st) {
                out.violations.push((Case { spec: spec.clone(), tuple: t.clone() }, v));
            }
        } else if round % 4 == 3 || n_hard <= 2 && round % 2 == 1 && rng.coin() {
            // two live invocations of one stage's command line, writing the same output, under a decided interleaving
            let stage = rng.usize_below(2);
            if stage == 0 { t.parse_out = if rng.coin() { Chan::OFile } else { Chan::ODir }; if t.parse_flag.is_none() && t.parse_out == Chan::ODir { t.parse_flag = Some(t.format.ext().to_string()); } t.parse_stdin = false; }
            else { t.compile_out = if rng.coin() { Chan::OFile } else { Chan::ODir }; t.compile_stdin = false; if t.parse_out == Chan::StdoutPipe || t.parse_out == Chan::DevStdout { t.parse_out = Chan::OFile; } if t.compile_flag.is_none() && t.parse_flag.is_none() && t.parse_out != Chan::OFile { t.compile_flag = Some(t.format.ext().to_string()); } }
            t.stale = false;
            t.overlap = Some((stage, (0..10).map(|_| if rng.coin() { '1' } else { '0' }).collect()));
            let st = run_staged(&source, &t);
            out.children += st.children;
            out.evaluations += 1;
            out.distinct.push(digest_of(&(digest, &t)));
            if st.overlaps_run > 0 { out.counters.push(("pipelines_with_one_stage_as_two_live_invocations_under_a_decided_interleaving".into(), 1)); }
            if let Some(v) = judge(&prep, &t, &direct, &st) {
                out.violations.push((Case { spec: spec.clone(), tuple: t.clone() }, v));
            }
        } else {
            let stage = rng.usize_below(2);
            let outc = if stage == 0 { &t.parse_out } else { &t.compile_out };
            let cls = match outc { Chan::OFile | Chan::ODir | Chan::DevStdout => 'f', _ => 'o' };
            t.crash_before = Some((stage, format!("{}:{}:K:{}", cls, rng.below(2), rng.pick(&[0u32, 1, 5, 40, 300]))));
            let st = run_staged(&source, &t);
            out.children += st.children;
            out.evaluations += 1;
            out.distinct.push(digest_of(&(digest, &t)));
            out.counters.push(("pipelines_after_a_killed_invocation_of_one_stage".into(), 1));
            if st.crashes_fired > 0 { out.counters.push(("pipelines_after_a_killed_invocation_where_the_kill_fired".into(), 1)); }
            if let Some(v) = judge(&prep, &t, &direct, &st) {
                out.violations.push((Case { spec: spec.clone(), tuple: t.clone() }, v));
            }
        }
    }
    out
}

pub fn run(seed: u64, tier: &str, ev: &mut Evidence) -> Vec<Violation> {
    let thorough = tier == "thorough";
    let (n_gen, n_tuples, n_nest, n_hard) = if thorough { (30_000usize, 10usize, 3000usize, 4usize) } else { (450, 6, 150, 2) };
    let mut specs: Vec<(String, ProgSpec)> = work::corpus_specs().into_iter().filter(|(_, s)| s.source().is_some()).map(|(n, s)| (format!("corpus:{}", n), s)).collect();
    for j in 0..n_gen {
        let mut rng = Rng::for_case(seed, "C06", "workload", j as u64);
        let mut cfg = GenCfg::swarm(&mut rng);
        // the pipeline is where hostile strings and identifiers bite: bias towards them
        if j % 2 == 0 { cfg.strings = *rng.pick(&[StrRegime::Meta, StrRegime::Control, StrRegime::Unicode, StrRegime::Mixed]); cfg.hostile_idents = true; }
        if cfg.strings == StrRegime::Long { cfg.long_max = 4096; }
        specs.push((format!("gen:{}", j), work::gen_source_spec(&mut rng, &cfg).0));
    }
    for j in 0..n_nest {
        let mut rng = Rng::for_case(seed, "C06", "nesting", j as u64);
        let depth = if j % 3 == 0 { 1 + rng.usize_below(30) } else { 1 + rng.usize_below(300) };
        specs.push((format!("nest:{}:{}", j % 6, depth), ProgSpec::Source(nesting_template(j, depth))));
    }
    for (name, src) in super::c11::limit_templates() {
        specs.push((format!("limit:{}", name), ProgSpec::Source(src)));
    }
    for (name, src) in work::scale_templates() {
        specs.push((format!("scale:{}", name), ProgSpec::Source(src)));
    }
    // the constant-count boundary of the image header, as source programs (release build only: the debug build needs more CPU
    // time for them than the watchdog grants)
    for total in [65_535usize, 65_536, 65_537] {
        specs.push((format!("boundary:pool_of_{}_constants", total), ProgSpec::Source(work::pool_boundary_source(total))));
    }
    // program texts with what other tools put in front of or behind a source: a `#!` line, a byte-order mark, a form feed, a NUL
    let n_foreign = if thorough { 2000usize } else { 60 };
    let foreign_outs: Vec<Option<(Case, Verdict)>> = par_map(n_foreign, |k| {
        let mut rng = Rng::for_case(seed, "C06", "foreign-text", k as u64);
        let cfg = GenCfg::small(&mut rng);
        let body = work::gen_source_spec(&mut rng, &cfg).0.source().unwrap_or_default();
        let text = match rng.below(6) {
            0 => format!("#!/usr/bin/env fml\n{}", body), 1 => format!("#!fml run\n{}", body), 2 => format!("\u{feff}{}", body),
            3 => format!("{}\u{1a}", body), 4 => format!("\u{c}{}", body), _ => format!("#! \n{}\n#!end\n", body),
        };
        if prepare(&text).is_some() { return None; } // the in-process front end accepts it: the ordinary pipelines' business
        let t = Tuple::plain(*rng.pick(&Fmt::ALL), if rng.coin() { Profile::Debug } else { Profile::Release });
        cli_only_judgement(&text, &t).map(|v| (Case { spec: ProgSpec::Source(text), tuple: t }, v))
    });
    // one pinned instance of the recorded finding (AST nesting beyond the deserializers' limit), so that its
    // KNOWN-FINDING line is printed exactly while it exists, whatever the seed
    specs.push(("pinned:blocks-nested-200".into(), ProgSpec::Source(nesting_template(0, 200))));
    let outs: Vec<Out1> = par_map(specs.len(), |i| {
        let mut rng = Rng::for_case(seed, "C06", ENGINE, i as u64);
        super::util::breadcrumb("C06", json!({"kind": "program", "program": specs[i].1.to_json()}));
        if specs[i].0.starts_with("boundary:") { return exercise(&specs[i].0, &specs[i].1, &mut rng, 1, 0); }
        let nt = if specs[i].0.starts_with("scale:") { 3 } else { n_tuples };
        exercise(&specs[i].0, &specs[i].1, &mut rng, nt, if specs[i].0.starts_with("scale:") { 1 } else { n_hard })
    });
    // ---- batches into one output directory -----------------------------------------------------
    let n_batches = if thorough { 4000usize } else { 250 };
    let gen_lo = specs.iter().position(|(n, _)| n.starts_with("gen:")).unwrap_or(0);
    let batch_out: Vec<Option<(Value, String, String)>> = par_map(n_batches, |k| {
        let mut rng = Rng::for_case(seed, "C06", "batch", k as u64);
        let i = gen_lo + rng.usize_below(n_gen.max(2) - 1);
        let (sa, sb) = (&specs[i].1, &specs[i + 1].1);
        let (a, b) = match (sa.source().and_then(|s| prepare(&s)), sb.source().and_then(|s| prepare(&s))) { (Some(a), Some(b)) => (a, b), _ => return None };
        if a.ast == b.ast { return None; }
        let f = *rng.pick(&Fmt::ALL);
        let profile = if rng.coin() { Profile::Debug } else { Profile::Release };
        batch_collision(&a, &b, f, profile, 23).map(|(o, d)| (json!({"engine": ENGINE, "kind": "batch", "program_a": sa.to_json(), "program_b": sb.to_json(), "format": f.ext(), "profile": profile.name()}), o, d))
    });
    let mut batch_violations: Vec<Violation> = Vec::new();
    for b in batch_out.into_iter() {
        ev.evaluations += 1;
        if let Some((replay, o, d)) = b {
            if batch_violations.is_empty() {
                batch_violations.push(Violation { property: "C06".into(), oracle: o.clone(), detail: d, signature: json!({"engine": ENGINE, "oracle": o, "kind": "batch"}), replay });
            }
        }
    }
    ev.count("batches_of_two_programs_into_one_output_directory", n_batches as u64);
    let mut raw: Vec<(Case, Verdict)> = Vec::new();
    ev.count("sources_with_a_foreign_first_line_or_tail_judged_on_the_command_line_only", n_foreign as u64);
    ev.evaluations += n_foreign as u64;
    raw.extend(foreign_outs.into_iter().flatten());
    let (mut children, mut faults) = (0u64, 0u64);
    for o in outs {
        ev.evaluations += o.evaluations;
        children += o.children;
        faults += o.faults;
        for d in o.distinct { ev.distinct.insert(d); }
        for (k, n) in o.counters { ev.count(&k, n); }
        if let Some(s) = o.sample { ev.sample(s); }
        raw.extend(o.violations);
    }
    ev.extra.insert("children_spawned".into(), json!(children));
    ev.extra.insert("transient_read_write_faults_fired".into(), json!(faults));
    ev.extra.insert("programs".into(), json!(specs.len()));
    // one report per (oracle, format, stage, message head); known findings are matched later by signature
    let known = super::report::load_known_findings();
    let mut seen: Vec<String> = Vec::new();
    let mut violations = batch_violations;
    for (case, v) in raw {
        let msg = v.signature.get("message").and_then(|m| m.as_str()).unwrap_or("");
        // a case that matches a recorded finding must never shadow one that does not: the flag is part of the key
        let probe = Violation { property: "C06".into(), oracle: v.oracle.clone(), detail: String::new(), signature: v.signature.clone(), replay: Value::Null };
        let is_known = known.iter().any(|k| super::report::matches_known(k, &probe));
        let key = format!("{}|{}|{}|{}", is_known, v.oracle, case.tuple.format.ext(), msg.chars().filter(|c| !c.is_ascii_digit()).take(60).collect::<String>());
        let is_recursion_limit = is_known;
        if seen.contains(&key) { continue; }
        seen.push(key);
        if is_known || is_recursion_limit {
            // report as observed: shrinking would walk the depth down to the limit and change the finding
            violations.push(Violation { property: "C06".into(), oracle: v.oracle, detail: v.detail, signature: v.signature, replay: case.to_json() });
            continue;
        }
        let small = minimise(&case, &v.oracle);
        match replay_case(&small) {
            Ok(Some(v2)) => violations.push(Violation { property: "C06".into(), oracle: v2.oracle, detail: v2.detail, signature: v2.signature, replay: small.to_json() }),
            _ => violations.push(Violation { property: "C06".into(), oracle: v.oracle, detail: v.detail, signature: v.signature, replay: case.to_json() }),
        }
    }
    violations
}

pub fn replay(v: &Value) -> Result<Option<(String, String)>, String> {
    if v.get("kind").and_then(|k| k.as_str()) == Some("batch") {
        let sa = ProgSpec::from_json(v.get("program_a").ok_or("no program_a")?).ok_or("bad program_a")?;
        let sb = ProgSpec::from_json(v.get("program_b").ok_or("no program_b")?).ok_or("bad program_b")?;
        let a = sa.source().and_then(|s| prepare(&s)).ok_or("program_a does not compile")?;
        let b = sb.source().and_then(|s| prepare(&s)).ok_or("program_b does not compile")?;
        let f = Fmt::from_ext(v.get("format").and_then(|x| x.as_str()).unwrap_or("json")).ok_or("bad format")?;
        let profile = Profile::from_name(v.get("profile").and_then(|x| x.as_str()).unwrap_or("debug")).ok_or("bad profile")?;
        return Ok(batch_collision(&a, &b, f, profile, 23));
    }
    let case = Case::from_json(v).ok_or("malformed staged-pipeline replay")?;
    Ok(replay_case(&case)?.map(|v| (v.oracle, v.detail)))
}
