//! C03 / C04 — simulated save/load cycles between the real FML node and a foreign implementation
//! over a faulty disk (DESIGN §5.2). Layer A. The two properties share the cycle and differ in
//! the oracle: C03 compares the system with itself across the cycle (no reference model), C04
//! compares it with the independent codec in both directions.

use serde_json::{json, Value};

use crate::bytecode::program::Program;

use super::foreign::{self, FModel};
use super::gen::GenCfg;
use super::report::{Evidence, Violation};
use super::simio::{random_read_plan, random_write_plan, RAct, ReadPlan, WritePlan};
use super::stream::{read_under_plan, write_under_plan, ReadStack, Stack, Teardown};
use super::util::{digest_bytes, digest_of, first_difference, first_line, par_map, Rng};
use super::vm::{self, RunCfg};
use super::work::{self, ProgSpec};

pub const ENGINE: &str = "cycle-sim";

#[derive(Clone, Copy, Debug, PartialEq, Eq)]
pub enum Which {
    C03,
    C04,
}

impl Which {
    pub fn id(&self) -> &'static str {
        match self {
            Which::C03 => "C03",
            Which::C04 => "C04",
        }
    }
}

#[derive(Clone, Debug)]
pub struct CycleCase {
    pub which: Which,
    pub spec: ProgSpec,
    /// how the image is written: stack + transient-only plan
    pub wstack: Stack,
    pub wplan: WritePlan,
    /// who writes the image that FML loads: "fml" or "foreign"
    pub writer: &'static str,
    pub rstack: ReadStack,
    pub rplan: ReadPlan,
    /// also execute the loaded program and compare with the original's run
    pub execute: bool,
    /// writer == "foreign" only: Some(seed) = the foreign node does not intern strings (same program, other pool)
    pub nointern: Option<u64>,
}

impl CycleCase {
    pub fn to_json(&self) -> Value {
        json!({"engine": ENGINE, "property": self.which.id(), "program": self.spec.to_json(), "write_stack": self.wstack.name(),
               "write_plan": self.wplan.to_json(), "writer": self.writer, "read_stack": self.rstack.to_json(), "read_plan": self.rplan.to_json(), "execute": self.execute, "nointern": self.nointern})
    }
    pub fn from_json(v: &Value) -> Option<CycleCase> {
        Some(CycleCase {
            which: if v.get("property")?.as_str()? == "C04" { Which::C04 } else { Which::C03 },
            spec: ProgSpec::from_json(v.get("program")?)?,
            wstack: Stack::from_name(v.get("write_stack")?.as_str()?)?,
            wplan: WritePlan::from_json(v.get("write_plan")?)?,
            writer: if v.get("writer")?.as_str()? == "foreign" { "foreign" } else { "fml" },
            rstack: ReadStack::from_json(v.get("read_stack")?)?,
            rplan: ReadPlan::from_json(v.get("read_plan")?)?,
            execute: v.get("execute").and_then(|e| e.as_bool()).unwrap_or(true),
            nointern: v.get("nointern").and_then(|e| e.as_u64()),
        })
    }
}

pub struct Built {
    pub program: Program,
    pub model: FModel,
    pub reference: Vec<u8>,
    pub compiler_output: bool,
    pub runnable: bool,
    /// the original program's own fault-free run (once per program)
    pub original_run: Option<vm::RunResult>,
}

pub fn build(spec: &ProgSpec) -> Result<Built, String> {
    let program = spec.build()?;
    let model = foreign::model_of(&program)?;
    // A program that exists and fits the format's limits must be writable to the most benign sink there is. (A pool beyond the
    // u16 count is the one legitimate refusal.)
    let reference = match vm::serialize_to_vec(&program) {
        Ok(b) => b,
        Err(e) if model.consts.len() <= 65_535 => return Err(format!("SAVE-FAILS-ON-MEMORY-SINK: {}", e)),
        Err(e) => return Err(e),
    };
    let compiler_output = matches!(spec, ProgSpec::Stmts(_) | ProgSpec::Source(_));
    // images from the corpus are programs too; direct models carry arbitrary code and are never run
    let runnable = !matches!(spec, ProgSpec::Model(_));
    let original_run = if runnable {
        let r = vm::run(&program, &RunCfg { step_budget: 1_500_000, ..Default::default() });
        if r.end == vm::RunEnd::Budget { None } else { Some(r) }
    } else {
        None
    };
    Ok(Built { program, model, reference, compiler_output, runnable, original_run })
}

#[derive(Default)]
pub struct Probe {
    pub write_fault_fired: bool,
    pub read_fault_fired: bool,
    pub eintr_fired: bool,
    pub hard_read_fired: bool,
    pub hard_read_load_failed: bool,
    pub ran_both: bool,
    pub program_value_identical: bool,
}

/// One cycle under one case. Returns Some((oracle, detail)) on violation.
pub fn run_cycle(case: &CycleCase, b: &Built, probe: &mut Probe) -> Option<(String, String)> {
    // ---- save -------------------------------------------------------------------------------
    let variant: Option<FModel> = match (case.writer, case.nointern) { ("foreign", Some(seed)) => Some(foreign::without_interning(&b.model, seed)), _ => None };
    let model_ref: &FModel = variant.as_ref().unwrap_or(&b.model);
    let image: Vec<u8> = if case.writer == "foreign" {
        foreign::encode(model_ref)
    } else {
        let budget = 4 * b.reference.len() + 2 * case.wplan.transient_count() + 1024;
        let w = write_under_plan(&b.program, case.wstack, Teardown::FlushChecked, &case.wplan, budget, false);
        probe.write_fault_fired = w.fired.any();
        if w.serialize.is_err() || w.teardown.is_err() || w.budget_exceeded {
            if case.wplan.is_clean() {
                return Some(("S0:save_fails_on_benign_disk".into(), format!("serialize={:?} flush={:?}", w.serialize, w.teardown)));
            }
            return None; // writer reported an error under a transient fault: legal, no image exists
        }
        w.received
    };
    if case.writer == "fml" && image != b.reference {
        // C08 territory, but a cycle over a damaged image would blame the loader: report it here as lost data
        let at = first_difference(&image, &b.reference).unwrap_or(0);
        return Some(("S1:image_on_disk_incomplete".into(), format!("disk holds {} bytes, memory image {} bytes, first difference at {}", image.len(), b.reference.len(), at)));
    }

    // ---- exchange: the foreign node reads what FML wrote (C04 a) -------------------------------
    if case.which == Which::C04 && case.writer == "fml" {
        match foreign::decode(&image) {
            Err(e) => return Some(("L1:foreign_decoder_rejects_fml_image".into(), e)),
            Ok((m, _)) => {
                if m != (*model_ref) {
                    return Some(("L2:foreign_decode_differs_from_program".into(), describe_model_difference(model_ref, &m)));
                }
            }
        }
    }
    if case.which == Which::C04 && case.writer == "foreign" {
        // sanity of the stub itself: its decoder must read back its own encoder (harness invariant)
        match foreign::decode(&image) {
            Ok((m, _)) if m == (*model_ref) => {}
            other => {
                eprintln!("HARNESS-ERROR foreign codec is not self-inverse: {:?}", other.err());
                std::process::exit(2);
            }
        }
    }

    // ---- load under the read schedule ---------------------------------------------------------
    let eintrs = case.rplan.at.iter().filter(|(_, a)| *a == RAct::Eintr).count();
    let budget = 2 * image.len() + 2 * eintrs + 64;
    let r = read_under_plan(&image, case.rstack, &case.rplan, budget);
    probe.read_fault_fired = r.fired > 0 || r.eintr > 0;
    probe.eintr_fired = r.eintr > 0;
    probe.hard_read_fired = r.hard > 0;
    let who = if case.writer == "foreign" { "L3" } else { "R1" };
    if r.budget_exceeded {
        return Some((format!("{}:load_makes_no_progress", who), format!("{} read calls for a {}-byte image", r.calls, image.len())));
    }
    let loaded = match r.program {
        Ok(p) => p,
        // the medium failed under the loader: the load may fail, and then nothing more is claimed. (If it *succeeds* despite
        // the error, everything below still applies: it must have produced exactly the program that was saved.)
        Err(_) if r.hard > 0 => { probe.hard_read_load_failed = true; return None; }
        Err(e) => {
            // is it the schedule or the image? decide with a fault-free read of the same bytes
            let clean = read_under_plan(&image, ReadStack::Raw, &ReadPlan::clean(), budget);
            let oracle = if clean.program.is_ok() && !case.rplan.is_clean() {
                format!("{}:load_depends_on_delivery_schedule", if case.writer == "foreign" { "L3" } else { "R6" })
            } else if case.writer == "foreign" {
                "L3:fml_rejects_foreign_image".to_string()
            } else {
                "R1:load_fails_on_own_image".to_string()
            };
            return Some((oracle, first_line(&e, 200)));
        }
    };
    if case.rstack == ReadStack::Raw && r.consumed != image.len() && r.hard == 0 {
        return Some((format!("{}:trailing_bytes_left_unread", if case.writer == "foreign" { "L4" } else { "R2" }), format!("loader consumed {} of {} bytes", r.consumed, image.len())));
    }
    let loaded_model = match foreign::model_of(&loaded) {
        Ok(m) => m,
        Err(e) => return Some((format!("{}:loaded_program_inconsistent", if case.writer == "foreign" { "L4" } else { "R2" }), e)),
    };
    if loaded_model != (*model_ref) {
        let clean = read_under_plan(&image, ReadStack::Raw, &ReadPlan::clean(), budget);
        let clean_ok = clean.program.ok().and_then(|p| foreign::model_of(&p).ok()).map(|m| m == (*model_ref)).unwrap_or(false);
        let oracle = if clean_ok && !case.rplan.is_clean() {
            format!("{}:load_depends_on_delivery_schedule", if case.writer == "foreign" { "L4" } else { "R6" })
        } else if case.writer == "foreign" {
            "L4:fml_loads_foreign_image_as_other_program".to_string()
        } else {
            "R2:program_changed_by_cycle".to_string()
        };
        return Some((oracle, describe_model_difference(model_ref, &loaded_model)));
    }
    // (full `Program` equality incl. code addresses is observed, not demanded: C03 does not promise it)
    if b.compiler_output && loaded == b.program {
        probe.program_value_identical = true;
    }

    // ---- save again ---------------------------------------------------------------------------
    match vm::serialize_to_vec(&loaded) {
        Ok(again) => {
            if again != image {
                let at = first_difference(&again, &image).unwrap_or(0);
                return Some((format!("{}:resave_differs", if case.writer == "foreign" { "L5" } else { "R4" }), format!("second image {} bytes, first {} bytes, first difference at {}", again.len(), image.len(), at)));
            }
        }
        Err(e) => return Some((format!("{}:resave_fails", if case.writer == "foreign" { "L5" } else { "R4" }), first_line(&e, 200))),
    }

    // ---- run both -----------------------------------------------------------------------------
    if case.execute {
        if let Some(a) = &b.original_run {
            let cfg2 = RunCfg { step_budget: a.steps * 50 + 1_000_000, ..Default::default() };
            let c = vm::run(&loaded, &cfg2);
            probe.ran_both = true;
            if a.output != c.output || a.end.class() != c.end.class() {
                return Some((format!("{}:behaviour_differs_after_cycle", if case.writer == "foreign" { "L6" } else { "R5" }),
                             format!("original: {} after {} bytes of output; loaded: {} after {} bytes", a.end.class(), a.output.len(), c.end.class(), c.output.len())));
            }
        }
    }
    None
}

fn describe_model_difference(a: &FModel, b: &FModel) -> String {
    if a.consts.len() != b.consts.len() {
        return format!("constant counts differ: {} vs {}", a.consts.len(), b.consts.len());
    }
    for (i, (x, y)) in a.consts.iter().zip(b.consts.iter()).enumerate() {
        if x != y {
            let sx = format!("{:?}", x);
            let sy = format!("{:?}", y);
            return format!("constant #{} differs: {} vs {}", i, first_line(&sx, 90), first_line(&sy, 90));
        }
    }
    if a.globals != b.globals {
        return format!("globals differ: {:?} vs {:?}", a.globals.iter().take(8).collect::<Vec<_>>(), b.globals.iter().take(8).collect::<Vec<_>>());
    }
    format!("entry differs: {} vs {}", a.entry, b.entry)
}

pub fn replay_case(case: &CycleCase) -> Result<Option<(String, String)>, String> {
    let b = match build(&case.spec) {
        Ok(b) => b,
        Err(e) if e.starts_with("SAVE-FAILS-ON-MEMORY-SINK") => return Ok(Some(("S0:save_fails_on_benign_disk".into(), first_line(&e, 200)))),
        Err(e) => return Err(e),
    };
    Ok(run_cycle(case, &b, &mut Probe::default()))
}

fn class_of(o: &str) -> String {
    o.split(':').next().unwrap_or(o).to_string()
}

pub fn minimise(case: &CycleCase, oracle: &str) -> CycleCase {
    let want = class_of(oracle);
    let still = |c: &CycleCase| matches!(replay_case(c), Ok(Some((o, _))) if class_of(&o) == want);
    let mut best = case.clone();
    // plans first
    if !best.wplan.is_clean() {
        let mut c = best.clone();
        c.wplan = WritePlan::clean();
        if still(&c) { best = c; }
    }
    if best.wstack != Stack::Raw {
        let mut c = best.clone();
        c.wstack = Stack::Raw;
        if still(&c) { best = c; }
    }
    let mut i = 0;
    while i < best.rplan.at.len() {
        let mut c = best.clone();
        c.rplan.at.remove(i);
        if still(&c) { best = c; } else { i += 1; }
    }
    if best.rplan.chunk.is_some() {
        let mut c = best.clone();
        c.rplan.chunk = None;
        if still(&c) { best = c; } else if best.rplan.chunk != Some(1) {
            let mut c = best.clone();
            c.rplan.chunk = Some(1);
            if still(&c) { best = c; }
        }
    }
    if best.rstack != ReadStack::Raw {
        let mut c = best.clone();
        c.rstack = ReadStack::Raw;
        if still(&c) { best = c; }
    }
    // program
    match best.spec.clone() {
        ProgSpec::Stmts(stmts) => {
            let mut stmts = stmts;
            let mut j = stmts.len();
            while j > 0 {
                j -= 1;
                if stmts.len() <= 1 { break; }
                let mut cand = stmts.clone();
                cand.remove(j);
                let mut c = best.clone();
                c.spec = ProgSpec::Stmts(cand.clone());
                if still(&c) { stmts = cand; best = c; }
            }
        }
        ProgSpec::Model(m) => {
            let mut m = m;
            // clear globals, empty method bodies, then drop constants from the end
            let mut cand = m.clone();
            cand.globals.clear();
            let mut c = best.clone();
            c.spec = ProgSpec::Model(cand.clone());
            if still(&c) { m = cand; best = c; }
            for k in 0..m.consts.len().min(400) {
                if let foreign::FConst::Method { code, .. } = &m.consts[k] {
                    if !code.is_empty() {
                        let mut cand = m.clone();
                        if let foreign::FConst::Method { code, .. } = &mut cand.consts[k] { code.clear(); }
                        let mut c = best.clone();
                        c.spec = ProgSpec::Model(cand.clone());
                        if still(&c) { m = cand; best = c; }
                    }
                }
            }
            // drop constants by halves, then quarters, … then one by one — under a fixed replay budget, so that a
            // 65 536-constant model cannot turn minimisation into the longest part of the run
            let mut budget = 300usize;
            let mut chunk = (m.consts.len() / 2).max(1);
            loop {
                let mut start = m.consts.len();
                while start > 0 && budget > 0 {
                    let lo = start.saturating_sub(chunk);
                    let mut cand = m.clone();
                    cand.consts.drain(lo..start);
                    budget -= 1;
                    let mut c = best.clone();
                    c.spec = ProgSpec::Model(cand.clone());
                    if !cand.consts.is_empty() && still(&c) { m = cand; best = c; }
                    start = lo;
                }
                if chunk == 1 || budget == 0 { break; }
                chunk /= 2;
            }
        }
        _ => {}
    }
    best
}

// ------------------------------------------------------------------------------------------------

struct Out1 {
    evaluations: u64,
    distinct: Vec<u64>,
    counters: Vec<(&'static str, u64)>,
    violations: Vec<(CycleCase, String, String)>,
    sample: Option<Value>,
    skipped: Option<String>,
}

const CHUNKS: [usize; 9] = [1, 2, 3, 7, 64, 255, 4095, 4096, 8192];

fn exercise(which: Which, name: &str, spec: &ProgSpec, rng: &mut Rng, random_plans: usize) -> Out1 {
    let mut out = Out1 { evaluations: 0, distinct: vec![], counters: vec![], violations: vec![], sample: None, skipped: None };
    let b = match build(spec) {
        Ok(b) => b,
        Err(e) if e.starts_with("SAVE-FAILS-ON-MEMORY-SINK") => {
            out.evaluations += 1;
            out.violations.push((CycleCase { which, spec: spec.clone(), wstack: Stack::Raw, wplan: WritePlan::clean(), writer: "fml", rstack: ReadStack::Raw, rplan: ReadPlan::clean(), execute: false, nointern: None },
                "S0:save_fails_on_benign_disk".into(), first_line(&e, 200)));
            return out;
        }
        Err(e) => {
            out.skipped = Some(format!("{}: {}", name, first_line(&e, 100)));
            return out;
        }
    };
    let digest = digest_bytes(&b.reference);
    let mut cases: Vec<CycleCase> = Vec::new();
    // a pool beyond the u16 count cannot be encoded by anyone: the foreign node has nothing to write then
    let writers: &[&'static str] = match which { Which::C04 if b.model.consts.len() <= 65_535 => &["fml", "foreign"], _ => &["fml"] };
    for &writer in writers {
        // fault-free cycle
        cases.push(CycleCase { which, spec: spec.clone(), wstack: Stack::Raw, wplan: WritePlan::clean(), writer, rstack: ReadStack::Raw, rplan: ReadPlan::clean(), execute: true, nointern: None });
        // every chunk size of the fixed set, raw and through BufReader
        for &k in &CHUNKS {
            if k <= b.reference.len() || k == 1 {
                cases.push(CycleCase { which, spec: spec.clone(), wstack: Stack::Raw, wplan: WritePlan::clean(), writer, rstack: ReadStack::Raw, rplan: ReadPlan::chunk(k), execute: k == 1, nointern: None });
            }
        }
        for &cap in &[1usize, 3, 16, 8192] {
            cases.push(CycleCase { which, spec: spec.clone(), wstack: Stack::Raw, wplan: WritePlan::clean(), writer, rstack: ReadStack::BufReader(cap), rplan: ReadPlan::chunk(1 + rng.usize_below(5)), execute: false, nointern: None });
        }
        // seeded: transient write plan on a random stack + random read plan
        for _ in 0..random_plans {
            let wstack = *rng.pick(&Stack::ALL);
            let calls = (b.reference.len() / 3).max(4);
            let wplan = if writer == "fml" && rng.coin() { random_write_plan(rng, calls, false) } else { WritePlan::clean() };
            let rstack = if rng.below(3) == 0 { ReadStack::BufReader(*rng.pick(&[1usize, 2, 5, 64, 1024, 8192])) } else { ReadStack::Raw };
            let rplan = random_read_plan(rng, b.reference.len());
            let execute = rng.below(3) == 0;
            let nointern = if writer == "foreign" && b.original_run.is_some() && rng.coin() { Some(rng.next_u64()) } else { None };
            let execute = execute || nointern.is_some();
            cases.push(CycleCase { which, spec: spec.clone(), wstack, wplan, writer, rstack, rplan, execute, nointern });
        }
        // the medium fails under the loader (EIO, sticky) at a seeded read call — the first, the last (the one that would
        // report end-of-file to a BufReader), or one in between, possibly after a short delivery: the load may fail, but a
        // load that succeeds must still yield exactly the saved program
        for _ in 0..(random_plans / 3).max(2) {
            let rstack = if rng.coin() { ReadStack::BufReader(*rng.pick(&[1usize, 16, 1024, 8192])) } else { ReadStack::Raw };
            let chunk = if rng.coin() { Some(*rng.pick(&[1usize, 3, 64, 4096])) } else { None };
            let clean = read_under_plan(&b.reference, rstack, &ReadPlan { chunk, at: vec![] }, 4 * b.reference.len() + 64);
            let n = clean.calls.max(1);
            let at = match rng.below(4) { 0 => 0, 1 => n - 1, 2 => n.saturating_sub(2), _ => rng.usize_below(n) };
            let mut plan = ReadPlan { chunk, at: vec![(at, if rng.below(3) == 0 { RAct::HardOnce } else { RAct::Hard })] };
            if at > 0 && rng.coin() { plan.at.insert(0, (at - 1, RAct::Short(1 + rng.usize_below(3)))); }
            cases.push(CycleCase { which, spec: spec.clone(), wstack: Stack::Raw, wplan: WritePlan::clean(), writer, rstack, rplan: plan, execute: true, nointern: None });
        }
    }
    let mut any_write_fault = 0u64;
    let mut any_read_fault = 0u64;
    let mut eintr = 0u64;
    let mut ran = 0u64;
    let mut identical = 0u64;
    let mut nointern_n = 0u64;
    let (mut hard_read, mut hard_read_failed) = (0u64, 0u64);
    for case in cases {
        let mut probe = Probe::default();
        let verdict = run_cycle(&case, &b, &mut probe);
        out.evaluations += 1;
        if probe.write_fault_fired { any_write_fault += 1; }
        if probe.read_fault_fired { any_read_fault += 1; }
        if probe.eintr_fired { eintr += 1; }
        if probe.hard_read_fired { hard_read += 1; }
        if probe.hard_read_load_failed { hard_read_failed += 1; }
        if probe.ran_both { ran += 1; }
        if probe.program_value_identical { identical += 1; }
        if case.nointern.is_some() { nointern_n += 1; }
        if probe.write_fault_fired || probe.read_fault_fired || probe.hard_read_fired {
            out.distinct.push(digest_of(&(digest, case.writer, case.wstack, &case.wplan, case.rstack, &case.rplan, case.nointern)));
        }
        if let Some((o, d)) = verdict {
            if out.violations.len() < 16 { out.violations.push((case.clone(), o, d)); }
        }
        if out.sample.is_none() && (probe.write_fault_fired || probe.read_fault_fired) && rng.below(40) == 0 {
            out.sample = Some(json!({"program": name, "program_brief": spec.brief(), "image_bytes": b.reference.len(), "writer": case.writer,
                "write_stack": case.wstack.name(), "write_plan": case.wplan.to_json(), "read_stack": case.rstack.to_json(), "read_plan_chunk": case.rplan.chunk,
                "read_plan_entries": case.rplan.at.len(), "executed_both_programs": probe.ran_both}));
        }
    }
    out.counters.push(("cycles_with_write_fault_fired", any_write_fault));
    out.counters.push(("cycles_with_read_cut_or_eintr_fired", any_read_fault));
    out.counters.push(("cycles_with_read_eintr_fired", eintr));
    out.counters.push(("cycles_with_hard_read_error_fired", hard_read));
    out.counters.push(("cycles_with_hard_read_error_where_the_load_failed_as_allowed", hard_read_failed));
    out.counters.push(("cycles_that_executed_original_and_loaded_program", ran));
    out.counters.push(("cycles_with_foreign_writer_that_does_not_intern_strings", nointern_n));
    out.counters.push(("informational.cycles_where_loaded_Program_value_equals_compiled_Program", identical));
    if b.reference.len() > 65536 { out.counters.push(("probe.image_over_64KiB", 1)); }
    if b.model.consts.len() > 255 { out.counters.push(("probe.pool_over_255_constants", 1)); }
    if b.model.consts.iter().any(|c| matches!(c, foreign::FConst::Str(s) if !s.is_ascii())) { out.counters.push(("probe.non_ascii_string_constant", 1)); }
    if b.model.consts.iter().any(|c| matches!(c, foreign::FConst::Str(s) if s.is_empty())) { out.counters.push(("probe.empty_string_constant", 1)); }
    if b.model.consts.iter().any(|c| matches!(c, foreign::FConst::Method { code, .. } if code.len() > 255)) { out.counters.push(("probe.method_over_255_instructions", 1)); }
    if b.model.consts.iter().any(|c| matches!(c, foreign::FConst::Class(v) if v.is_empty())) { out.counters.push(("probe.empty_class", 1)); }
    if b.model.consts.iter().any(|c| matches!(c, foreign::FConst::Int(n) if *n == i32::MIN || *n == i32::MAX)) { out.counters.push(("probe.extreme_integer_constant", 1)); }
    out
}

pub fn specs_for(which: Which, seed: u64, tier: &str) -> Vec<(String, ProgSpec, u64)> {
    let (n_gen, n_model) = if tier == "thorough" { (30_000usize, 30_000usize) } else { (800, 800) };
    let mut specs: Vec<(String, ProgSpec, u64)> = Vec::new();
    for (i, (name, spec)) in work::corpus_specs().into_iter().enumerate() {
        specs.push((format!("corpus:{}", name), spec, i as u64));
    }
    let base = specs.len() as u64;
    for j in 0..n_gen {
        let case = base + j as u64;
        let mut rng = Rng::for_case(seed, which.id(), "workload", case);
        let cfg = GenCfg::swarm(&mut rng);
        specs.push((format!("gen:{}", case), work::gen_source_spec(&mut rng, &cfg).0, case));
    }
    // programs at the index-width limits (254..300 parameters / arguments / locals / fields, literal extremes)
    let base = specs.len() as u64;
    for (k, (name, src)) in super::c11::limit_templates().into_iter().enumerate() {
        specs.push((format!("limit:{}", name), ProgSpec::Source(src), base + k as u64));
    }
    let base = specs.len() as u64;
    for (k, (name, src)) in work::scale_templates().into_iter().enumerate() {
        specs.push((format!("scale:{}", name), ProgSpec::Source(src), base + k as u64));
    }
    // the constant-count boundary of the u16 header: 65535 constants is the largest valid pool and must survive the cycle;
    // 65536 cannot be written at all (the writer must refuse it in every build profile, never emit a wrapped count)
    let base = specs.len() as u64;
    for (k, n) in [65_535usize, 65_536].iter().enumerate() {
        specs.push((format!("boundary:pool_of_{}", n), ProgSpec::Model(foreign::boundary_pool_model(*n)), base + k as u64));
    }
    // pool sizes whose u16 makes the image start like something else (`#!`, BOM, gzip, line ends, ...)
    let base = specs.len() as u64;
    for (k, n) in super::cycleb::MAGIC_POOL_SIZES.iter().enumerate() {
        specs.push((format!("boundary:image_starts_with_{:02x}_{:02x}", n & 0xff, (n >> 8) & 0xff), ProgSpec::Model(foreign::boundary_pool_model(*n)), base + k as u64));
    }
    let base = specs.len() as u64;
    for j in 0..n_model {
        let case = base + j as u64;
        let mut rng = Rng::for_case(seed, which.id(), "workload", case);
        let big = rng.below(8) == 0;
        specs.push((format!("model:{}", case), work::gen_model_spec(&mut rng, big), case));
    }
    specs
}

pub fn run_layer_a(which: Which, seed: u64, tier: &str, ev: &mut Evidence) -> Vec<Violation> {
    let specs = specs_for(which, seed, tier);
    let random_plans = if tier == "thorough" { 24 } else { 6 };
    let timing = std::env::var("VERIF_TIMING").is_ok();
    let outs: Vec<Out1> = par_map(specs.len(), |i| {
        let (name, spec, case) = &specs[i];
        let mut rng = Rng::for_case(seed, which.id(), ENGINE, *case);
        let t0 = std::time::Instant::now();
        super::util::breadcrumb(which.id(), json!({"kind": "cycle", "property": which.id(), "program": spec.to_json(), "seed": seed, "case": case, "random_plans": random_plans}));
        let o = exercise(which, name, spec, &mut rng, random_plans);
        if timing && t0.elapsed().as_millis() > 500 { eprintln!("TIMING {} {} ms {:?}", name, t0.elapsed().as_millis(), spec.brief()); }
        o
    });
    let mut raw = Vec::new();
    let mut skipped = Vec::new();
    let mut used = 0u64;
    for o in outs {
        ev.evaluations += o.evaluations;
        for d in o.distinct { ev.distinct.insert(d); }
        for (k, n) in o.counters { ev.count(k, n); }
        if let Some(s) = o.sample { ev.sample(s); }
        if let Some(s) = o.skipped { skipped.push(s); } else { used += 1; }
        raw.extend(o.violations);
    }
    ev.extra.insert("layer_a_programs".into(), json!(used));
    ev.extra.insert("layer_a_programs_skipped".into(), json!(skipped.len()));
    ev.extra.insert("layer_a_skipped_examples".into(), json!(skipped.iter().take(5).collect::<Vec<_>>()));
    let mut seen: Vec<String> = Vec::new();
    let mut violations = Vec::new();
    for (case, oracle, detail) in raw {
        let key = format!("{}|{}", oracle, case.writer);
        if seen.contains(&key) { continue; }
        seen.push(key);
        let small = minimise(&case, &oracle);
        let (c, o, d) = match replay_case(&small) {
            Ok(Some((o2, d2))) => (small, o2, d2),
            _ => (case, oracle, detail),
        };
        violations.push(Violation {
            property: which.id().into(),
            oracle: o.clone(),
            detail: d,
            signature: json!({"engine": ENGINE, "oracle": o, "writer": c.writer}),
            replay: c.to_json(),
        });
    }
    violations
}

pub fn replay(v: &Value) -> Result<Option<(String, String)>, String> {
    let case = CycleCase::from_json(v).ok_or("malformed cycle-sim replay")?;
    replay_case(&case)
}

pub fn replay_unit(u: &Value) -> Result<(), String> {
    let which = if u.get("property").and_then(|x| x.as_str()) == Some("C04") { Which::C04 } else { Which::C03 };
    let spec = ProgSpec::from_json(u.get("program").ok_or("no program")?).ok_or("bad program")?;
    let mut rng = Rng::for_case(u.get("seed").and_then(|x| x.as_u64()).unwrap_or(1), which.id(), ENGINE, u.get("case").and_then(|x| x.as_u64()).unwrap_or(0));
    let _ = exercise(which, "replayed-unit", &spec, &mut rng, u.get("random_plans").and_then(|x| x.as_u64()).unwrap_or(6) as usize);
    Ok(())
}
