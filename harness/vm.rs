//! In-process drivers for the real FML front end, compiler, serializer and VM.
//! Everything here calls kondziu/FML code; nothing re-implements it.

use crate::bytecode;
use crate::bytecode::heap::{HeapIndex, HeapObject, Pointer};
use crate::bytecode::interpreter::step_with;
use crate::bytecode::program::Program;
use crate::bytecode::serializable::Serializable;
use crate::bytecode::state::State;
use crate::fml::TopLevelParser;
use crate::parser::AST;

use super::util::catch;

thread_local! {
    // One parser per worker thread, reused for every source. FML itself builds a fresh `TopLevelParser` per process; doing that
    // per *program* inside the orchestrator retains ~130 KB per parse (the generated lexer's regex match caches are not given
    // back), which ended a 250 000-program batch in the OOM killer. Reuse changes nothing about what is parsed.
    static PARSER: TopLevelParser = TopLevelParser::new();
}

pub fn parse(source: &str) -> Result<AST, String> {
    match catch(|| PARSER.with(|p| p.parse(source).map_err(|e| format!("{:?}", e)))) {
        Ok(r) => r,
        Err(p) => Err(format!("panic: {}", p)),
    }
}

pub fn compile(ast: &AST) -> Result<Program, String> {
    match catch(|| bytecode::compile(ast).map_err(|e| format!("{:#}", e))) {
        Ok(r) => r,
        Err(p) => Err(format!("panic: {}", p)),
    }
}

pub fn compile_source(source: &str) -> Result<Program, String> {
    let ast = parse(source).map_err(|e| format!("parse: {}", e))?;
    compile(&ast).map_err(|e| format!("compile: {}", e))
}

/// Reference bytes: the real serializer writing into memory (the benign sink).
pub fn serialize_to_vec(program: &Program) -> Result<Vec<u8>, String> {
    let mut bytes = Vec::new();
    match catch(|| program.serialize(&mut bytes).map_err(|e| format!("{:#}", e))) {
        Ok(Ok(())) => Ok(bytes),
        Ok(Err(e)) => Err(e),
        Err(p) => Err(format!("panic: {}", p)),
    }
}

pub fn load_from_slice(bytes: &[u8]) -> Result<Program, String> {
    let mut slice = bytes;
    let r = catch(|| {
        let p = Program::from_bytes(&mut slice);
        (p, slice.len())
    });
    match r {
        Ok((p, 0)) => Ok(p),
        Ok((_, rest)) => Err(format!("{} trailing bytes not consumed", rest)),
        Err(p) => Err(format!("panic: {}", p)),
    }
}

#[derive(Clone, Debug, PartialEq, Eq)]
pub enum RunEnd {
    Ok,
    /// the VM returned Err (what the CLI turns into exit 101)
    Err(String),
    /// FML code panicked (also exit 101 at the CLI)
    Panic(String),
    /// step budget exhausted — the program did not finish
    Budget,
    /// State::from failed
    Init(String),
}

impl RunEnd {
    pub fn class(&self) -> &'static str {
        match self {
            RunEnd::Ok => "ok",
            RunEnd::Err(_) => "err",
            RunEnd::Panic(_) => "panic",
            RunEnd::Budget => "budget",
            RunEnd::Init(_) => "init",
        }
    }
    pub fn is_failure(&self) -> bool {
        matches!(self, RunEnd::Err(_) | RunEnd::Panic(_) | RunEnd::Init(_))
    }
}

/// Shape of a heap entry: everything a correct implementation could size an allocation by,
/// and nothing about stored values.
#[derive(Clone, Debug, PartialEq, Eq, Hash, PartialOrd, Ord)]
pub enum Shape {
    Array(usize),
    /// parent kind, field names in order, methods as (name, arity, locals, code length) in order
    Object { parent: &'static str, fields: Vec<String>, methods: Vec<(String, usize, usize, usize)> },
}

impl Shape {
    pub fn describe(&self) -> String {
        match self {
            Shape::Array(n) => format!("array[{}]", n),
            Shape::Object { parent, fields, methods } => format!("object{{parent:{},fields:{:?},methods:{:?}}}", parent, fields, methods),
        }
    }
}

#[derive(Clone, Debug)]
pub struct RunResult {
    pub output: String,
    pub end: RunEnd,
    pub steps: u64,
    pub heap: Vec<Shape>,
    /// for each heap entry, in creation order: how many bytes of output the program had produced when it was created
    pub alloc_marks: Vec<usize>,
}

pub struct RunCfg {
    pub step_budget: u64,
    pub heap_size_mb: Option<usize>,
    pub heap_log: Option<std::path::PathBuf>,
    /// fail the output sink at the n-th fragment (fmt::Error), to see the VM report it
    pub fail_output_at: Option<usize>,
}

impl Default for RunCfg {
    fn default() -> Self {
        RunCfg { step_budget: 3_000_000, heap_size_mb: None, heap_log: None, fail_output_at: None }
    }
}

struct SimOutput {
    text: String,
    fragments: usize,
    fail_at: Option<usize>,
}

impl std::fmt::Write for SimOutput {
    fn write_str(&mut self, s: &str) -> std::fmt::Result {
        let n = self.fragments;
        self.fragments += 1;
        if self.fail_at == Some(n) {
            return Err(std::fmt::Error);
        }
        self.text.push_str(s);
        Ok(())
    }
}

/// Runs a program on the real per-opcode VM under a step budget (the shipped three-line loop in
/// `evaluate_with` is replaced by this loop so that a non-terminating program is an outcome, not a hang).
pub fn run(program: &Program, cfg: &RunCfg) -> RunResult {
    let mut out = SimOutput { text: String::new(), fragments: 0, fail_at: cfg.fail_output_at };
    let mut steps = 0u64;
    let mut heap_shapes = Vec::new();
    let mut alloc_marks: Vec<usize> = Vec::new();
    let r = catch(|| {
        let mut state = match State::from(program) {
            Ok(s) => s,
            Err(e) => return RunEnd::Init(format!("{:#}", e)),
        };
        if let Some(mb) = cfg.heap_size_mb {
            state.heap.set_size(mb);
        }
        if let Some(log) = &cfg.heap_log {
            state.heap.set_log(log.clone());
        }
        let mut end = RunEnd::Ok;
        while state.instruction_pointer.get().is_some() {
            if steps >= cfg.step_budget {
                end = RunEnd::Budget;
                break;
            }
            steps += 1;
            // panics inside a step propagate to the outer catch; the heap is then not enumerated
            if let Err(e) = step_with(program, &mut state, &mut out) {
                end = RunEnd::Err(format!("{:#}", e));
                break;
            }
            while state.heap.dereference(&HeapIndex::from(alloc_marks.len())).is_ok() {
                alloc_marks.push(out.text.len());
            }
        }
        // enumerate the real heap: it is append-only, index order is creation order
        let mut i = 0usize;
        while let Ok(obj) = state.heap.dereference(&HeapIndex::from(i)) {
            heap_shapes.push(shape_of(obj));
            i += 1;
        }
        end
    });
    let end = match r {
        Ok(e) => e,
        Err(p) => RunEnd::Panic(p),
    };
    RunResult { output: out.text, end, steps, heap: heap_shapes, alloc_marks }
}

fn shape_of(obj: &HeapObject) -> Shape {
    match obj {
        HeapObject::Array(a) => Shape::Array(a.length()),
        HeapObject::Object(o) => Shape::Object {
            parent: pointer_kind(&o.parent),
            fields: o.fields.keys().cloned().collect(),
            methods: o.methods.iter().map(|(name, m)| {
                let arity = m.get_method_parameters().map(|a| a.to_usize()).unwrap_or(0);
                let locals = m.get_method_locals().map(|a| a.to_usize()).unwrap_or(0);
                let length = m.get_method_length().unwrap_or(0);
                (name.clone(), arity, locals, length)
            }).collect(),
        },
    }
}

pub fn pointer_kind(p: &Pointer) -> &'static str {
    match p {
        Pointer::Null => "null",
        Pointer::Integer(_) => "int",
        Pointer::Boolean(_) => "bool",
        Pointer::Reference(_) => "ref",
    }
}
