//! C16 — heap log: one record per created array/object; memory flags are inert (DESIGN §5.6).
//! (A) in-process history check: the real VM with the real Heap and a real log file, against the
//!     enumerated heap, the generator's allocation count, and the same run without flags.
//! (B) process level: `fml run|execute --heap-log … --heap-size …` under scripted clocks (stall,
//!     backward/forward jumps, far future), short writes on the log fd, and guest faults part-way.

use serde_json::{json, Value};
use std::collections::BTreeMap;

use super::gen::{GenCfg, StrRegime};
use super::proc::{run_child, scratch_dir, Child, Exit, Profile, ShimCfg};
use super::report::{Evidence, Violation};
use super::util::{digest_bytes, digest_of, first_line, par_map, Rng};
use super::vm::{self, RunCfg, RunEnd, Shape};
use super::work::{self, ProgSpec};

pub const ENGINE_A: &str = "heap-history-sim";
pub const ENGINE_B: &str = "process-sim:heap-log";

pub const SIZES_MB: [usize; 7] = [0, 1, 2, 16, 1024, 65_536, 1_048_576];
/// In-process only sizes a process can always back as address space: an allocation failure aborts the
/// whole process by Rust's design, and in-process that process is the orchestrator. The large sizes
/// run at the process level, where an abort is an observable outcome of the child.
pub const SIZES_MB_IN_PROCESS: [usize; 5] = [0, 1, 2, 16, 1024];

#[derive(Clone, Debug)]
pub struct ParsedLog {
    /// cumulative sizes of the A records, in order
    pub sizes: Vec<u64>,
}

/// Parses a heap log strictly. Err(reason) when it is not exactly: header, one S record with heap 0,
/// then only A records with digit timestamps.
pub fn parse_log(bytes: &[u8]) -> Result<ParsedLog, String> {
    let text = std::str::from_utf8(bytes).map_err(|_| "log is not UTF-8".to_string())?;
    if !text.is_empty() && !text.ends_with('\n') {
        return Err("log does not end with a line break (torn last record)".into());
    }
    let mut lines = text.lines();
    match lines.next() {
        Some("timestamp,event,heap") => {}
        other => return Err(format!("first line is {:?}, expected the header", other)),
    }
    let digits = |s: &str| !s.is_empty() && s.bytes().all(|b| b.is_ascii_digit());
    match lines.next() {
        Some(l) => {
            let parts: Vec<&str> = l.split(',').collect();
            if parts.len() != 3 || !digits(parts[0]) || parts[1] != "S" || parts[2] != "0" {
                return Err(format!("second line is {:?}, expected <digits>,S,0", l));
            }
        }
        None => return Err("no start record".into()),
    }
    let mut sizes = Vec::new();
    for (i, l) in lines.enumerate() {
        let parts: Vec<&str> = l.split(',').collect();
        if parts.len() != 3 || !digits(parts[0]) || parts[1] != "A" || !digits(parts[2]) {
            return Err(format!("record {} is {:?}, expected <digits>,A,<digits>", i, l));
        }
        sizes.push(parts[2].parse::<u64>().map_err(|_| format!("record {}: size out of range", i))?);
    }
    Ok(ParsedLog { sizes })
}

pub fn increments(sizes: &[u64]) -> Result<Vec<u64>, String> {
    let mut out = Vec::new();
    let mut prev = 0u64;
    for (i, s) in sizes.iter().enumerate() {
        if *s <= prev {
            return Err(format!("record {}: cumulative size {} is not greater than the previous {}", i, s, prev));
        }
        out.push(s - prev);
        prev = *s;
    }
    Ok(out)
}

// ------------------------------------------------------------------------------------------------
// (A) in-process

#[derive(Clone, Debug)]
pub struct CaseA {
    pub spec: ProgSpec,
    pub expected_allocs: Option<u64>,
    pub size_mb: usize,
}

impl CaseA {
    pub fn to_json(&self) -> Value {
        json!({"engine": ENGINE_A, "program": self.spec.to_json(), "expected_allocs": self.expected_allocs, "size_mb": self.size_mb})
    }
    pub fn from_json(v: &Value) -> Option<CaseA> {
        Some(CaseA { spec: ProgSpec::from_json(v.get("program")?)?, expected_allocs: v.get("expected_allocs").and_then(|x| x.as_u64()), size_mb: v.get("size_mb")?.as_u64()? as usize })
    }
}

pub struct ObsA {
    pub shapes: Vec<Shape>,
    pub incs: Vec<u64>,
    /// the program allocated more than the configured --heap-size
    pub exceeded: bool,
}

/// One in-process history check. Ok(observation) or Err((oracle, detail)).
pub fn check_a(case: &CaseA) -> Result<Option<ObsA>, (String, String)> {
    let program = match case.spec.build() {
        Ok(p) => p,
        Err(_) => return Ok(None),
    };
    let plain = vm::run(&program, &RunCfg { step_budget: 1_500_000, ..Default::default() });
    if plain.end == RunEnd::Budget {
        return Ok(None);
    }
    let dir = scratch_dir();
    let log_path = dir.join("nested").join("dir").join("heap.csv");
    let flagged = vm::run(&program, &RunCfg { step_budget: plain.steps * 50 + 1_000_000, heap_size_mb: Some(case.size_mb), heap_log: Some(log_path.clone()), fail_output_at: None });
    let log = std::fs::read(&log_path);
    let _ = std::fs::remove_dir_all(&dir);
    // inertness
    if flagged.output != plain.output || flagged.end.class() != plain.end.class() {
        return Err(("H6:behaviour_changed_by_memory_flags".into(), format!("--heap-size {} MB with a heap log: {} after {} bytes of output; without flags: {} after {} bytes",
            case.size_mb, flagged.end.class(), flagged.output.len(), plain.end.class(), plain.output.len())));
    }
    if matches!(flagged.end, RunEnd::Panic(_) | RunEnd::Init(_)) {
        // a panic unwinds past the heap enumeration (layer B covers failing programs); a VM that never starts
        // (State::from refuses the program) opens no log, exactly like the CLI
        return Ok(None);
    }
    if flagged.heap != plain.heap {
        return Err(("H6:allocation_history_changed_by_memory_flags".into(), format!("{} heap entries with flags, {} without", flagged.heap.len(), plain.heap.len())));
    }
    let log = match log {
        Ok(b) => b,
        Err(e) => return Err(("H1:log_not_written".into(), e.to_string())),
    };
    let parsed = parse_log(&log).map_err(|e| ("H1:log_malformed".to_string(), e))?;
    if parsed.sizes.len() != flagged.heap.len() {
        return Err(("H2:record_count_differs_from_heap".into(), format!("{} A records, but the heap holds {} arrays/objects", parsed.sizes.len(), flagged.heap.len())));
    }
    let incs = increments(&parsed.sizes).map_err(|e| ("H3:size_not_strictly_increasing".to_string(), e))?;
    if let (Some(n), RunEnd::Ok) = (case.expected_allocs, &flagged.end) {
        if n != parsed.sizes.len() as u64 {
            return Err(("H5:allocation_count_differs_from_program_count".into(), format!("the program creates {} arrays/objects by construction, the log has {} A records", n, parsed.sizes.len())));
        }
    }
    // within one run: equal shapes, equal increments
    let mut seen: BTreeMap<&Shape, u64> = BTreeMap::new();
    for (s, i) in flagged.heap.iter().zip(incs.iter()) {
        if let Some(prev) = seen.get(s) {
            if prev != i {
                return Err(("H4:increment_not_a_function_of_shape".into(), format!("two values of shape {} were logged with increments {} and {}", first_line(&s.describe(), 120), prev, i)));
            }
        } else {
            seen.insert(s, *i);
        }
    }
    Ok(Some(ObsA { exceeded: case.size_mb > 0 && parsed.sizes.last().map(|s| *s > (case.size_mb as u64) << 20).unwrap_or(false), shapes: flagged.heap, incs }))
}

pub fn replay_a(v: &Value) -> Result<Option<(String, String)>, String> {
    let case = CaseA::from_json(v).ok_or("malformed heap-history replay")?;
    if let Some(other) = v.get("other_program") {
        // cross-program shape consistency: re-run both and compare the recorded shape
        let other_case = CaseA { spec: ProgSpec::from_json(other).ok_or("bad other_program")?, expected_allocs: None, size_mb: case.size_mb };
        let a = check_a(&case).map_err(|(o, d)| format!("{} {}", o, d))?;
        let b = check_a(&other_case).map_err(|(o, d)| format!("{} {}", o, d))?;
        if let (Some(a), Some(b)) = (a, b) {
            for (s, i) in a.shapes.iter().zip(a.incs.iter()) {
                for (t, j) in b.shapes.iter().zip(b.incs.iter()) {
                    if s == t && i != j {
                        return Ok(Some(("H4:increment_not_a_function_of_shape".into(), format!("shape {} logged with increment {} in one program and {} in another", first_line(&s.describe(), 120), i, j))));
                    }
                }
            }
        }
        return Ok(None);
    }
    match check_a(&case) {
        Ok(_) => Ok(None),
        Err((o, d)) => Ok(Some((o, d))),
    }
}

fn minimise_a(case: &CaseA, oracle: &str) -> CaseA {
    let want = oracle.split(':').next().unwrap_or("").to_string();
    let still = |c: &CaseA| matches!(check_a(c), Err((o, _)) if o.split(':').next().unwrap_or("") == want);
    let mut best = case.clone();
    if want != "H5" {
        best.expected_allocs = None;
        if let ProgSpec::Stmts(stmts) = &best.spec {
            let mut stmts = stmts.clone();
            let mut j = stmts.len();
            while j > 0 {
                j -= 1;
                if stmts.len() <= 1 { break; }
                let mut cand = stmts.clone();
                cand.remove(j);
                let mut c = best.clone();
                c.spec = ProgSpec::Stmts(cand.clone());
                if still(&c) { stmts = cand; best = c; }
            }
        }
    }
    if best.size_mb != 0 {
        let mut c = best.clone();
        c.size_mb = 0;
        if still(&c) { best = c; }
    }
    best
}

// ------------------------------------------------------------------------------------------------
// (B) process level

#[derive(Clone, Debug)]
pub struct CaseB {
    pub spec: ProgSpec,
    pub profile: Profile,
    /// "run" | "execute"
    pub action: String,
    pub size_mb: Option<usize>,
    pub log_path: String,
    pub clock: Option<String>,
    /// shim plan on the log fd (class f), transient only
    pub plan: String,
    pub stale_log: bool,
    pub hash_seed: u64,
    /// Some(plan): stdout (class o) fails hard part-way — the reader of the pipe went away, the disk under the redirection is
    /// full. The same plan is applied to the flag-free run. The program then dies at a print; the log must be well-formed and
    /// hold every allocation made before the last byte that still reached stdout.
    pub stdout_fault: Option<String>,
    /// seconds added to every scripted clock reading: years 3000, 10000, ... (beyond 64-bit nanoseconds)
    pub clock_extra_s: Option<i64>,
    /// address-space limit of the children in bytes (a container's memory limit, ulimit -v); applied to the flag-free run too
    pub as_limit: Option<u64>,
    /// a hard error on the log fd (disk full under the log), `$-1` = the last write the undisturbed run makes there: the run may
    /// then fail; if it ends like the flag-free run, the log is complete
    pub log_hard: Option<String>,
    /// the process runs in a working directory that was deleted under it; program and log are named by absolute paths
    pub deleted_cwd: bool,
    /// Some(schedule): TWO live runs of the program, each with its own log file in the same, not yet existing directory, under
    /// the cooperative scheduler (they announce before every mkdir): neither may notice the other
    pub overlap_logdir: Option<String>,
    /// the log path is a FIFO whose reader drains it lazily (nothing for 250 ms, then every 20 ms): the writer meets a full pipe and has to wait
    pub fifo_log: bool,
}

impl CaseB {
    pub fn to_json(&self) -> Value {
        json!({"engine": ENGINE_B, "program": self.spec.to_json(), "profile": self.profile.name(), "action": self.action, "size_mb": self.size_mb,
               "log_path": self.log_path, "clock": self.clock, "plan": self.plan, "stale_log": self.stale_log, "hash_seed": self.hash_seed, "stdout_fault": self.stdout_fault, "clock_extra_s": self.clock_extra_s, "as_limit": self.as_limit, "log_hard": self.log_hard, "deleted_cwd": self.deleted_cwd, "overlap_logdir": self.overlap_logdir, "fifo_log": self.fifo_log})
    }
    pub fn from_json(v: &Value) -> Option<CaseB> {
        Some(CaseB {
            spec: ProgSpec::from_json(v.get("program")?)?,
            profile: Profile::from_name(v.get("profile")?.as_str()?)?,
            action: v.get("action")?.as_str()?.to_string(),
            size_mb: v.get("size_mb").and_then(|x| x.as_u64()).map(|x| x as usize),
            log_path: v.get("log_path")?.as_str()?.to_string(),
            clock: v.get("clock").and_then(|c| c.as_str()).map(|s| s.to_string()),
            plan: v.get("plan")?.as_str()?.to_string(),
            stale_log: v.get("stale_log").and_then(|x| x.as_bool()).unwrap_or(false),
            hash_seed: v.get("hash_seed")?.as_u64()?,
            stdout_fault: v.get("stdout_fault").and_then(|c| c.as_str()).map(|s| s.to_string()),
            clock_extra_s: v.get("clock_extra_s").and_then(|c| c.as_i64()),
            as_limit: v.get("as_limit").and_then(|c| c.as_u64()),
            log_hard: v.get("log_hard").and_then(|c| c.as_str()).map(|s| s.to_string()),
            deleted_cwd: v.get("deleted_cwd").and_then(|c| c.as_bool()).unwrap_or(false),
            overlap_logdir: v.get("overlap_logdir").and_then(|c| c.as_str()).map(|s| s.to_string()),
            fifo_log: v.get("fifo_log").and_then(|c| c.as_bool()).unwrap_or(false),
        })
    }
}

pub struct ObsB {
    pub children: u64,
    pub clock_reads: u64,
    pub clock_backwards: bool,
    pub log_faults: u64,
    pub failing: bool,
    pub records: usize,
    pub stdout_fault_fired: bool,
}

pub fn check_b(case: &CaseB) -> Result<Option<ObsB>, (String, String)> {
    let source = match case.spec.source() { Some(s) => s, None => return Ok(None) };
    // the in-process history of the same program is the reference for the record sequence
    let program = match case.spec.build() { Ok(p) => p, Err(_) => return Ok(None) };
    let inproc = vm::run(&program, &RunCfg { step_budget: 1_500_000, ..Default::default() });
    if inproc.end == RunEnd::Budget { return Ok(None); }
    let dir = scratch_dir();
    std::fs::write(dir.join("x.fml"), &source).unwrap();
    if case.log_path.starts_with("lnk/") {
        // `lnk` is a symbolic link to a directory two levels down elsewhere: `lnk/..` is NOT the scratch directory. The file
        // named on the command line is the one the operating system resolves, and that is where the harness reads it back.
        let _ = std::fs::create_dir_all(dir.join("elsewhere/deep"));
        let _ = std::os::unix::fs::symlink("elsewhere/deep", dir.join("lnk"));
    }
    if case.log_path.starts_with("./logs/./x/") { let _ = std::fs::create_dir_all(dir.join("logs/x")); }
    let mut children = 0u64;
    let input: &str = if case.action == "execute" {
        // produce x.bc with the same build (no faults)
        let mut c = Child::new(case.profile, &["parse", "x.fml", "-o", "x.json"]);
        c.shim = Some(ShimCfg { seed: case.hash_seed, ..Default::default() });
        let r1 = run_child(&dir, &c);
        let mut c = Child::new(case.profile, &["compile", "x.json", "-o", "x.bc"]);
        c.shim = Some(ShimCfg { seed: case.hash_seed, ..Default::default() });
        let r2 = run_child(&dir, &c);
        children += 2;
        if !r1.exit.is_success() || !r2.exit.is_success() {
            let _ = std::fs::remove_dir_all(&dir);
            return Ok(None); // staging refused: C06's subject
        }
        "x.bc"
    } else {
        "x.fml"
    };
    // without any memory flag
    let mut plain = Child::new(case.profile, &[case.action.as_str(), input]);
    plain.deleted_cwd = case.deleted_cwd;
    plain.shim = Some(ShimCfg { seed: case.hash_seed, plan: case.stdout_fault.clone().unwrap_or_default(), as_limit: case.as_limit, ..Default::default() });
    let p = run_child(&dir, &plain);
    children += 1;
    // with flags
    let size_text = case.size_mb.map(|s| s.to_string());
    let mut args: Vec<&str> = vec![case.action.as_str(), input, "--heap-log", case.log_path.as_str()];
    if let Some(s) = &size_text { args.push("--heap-size"); args.push(s.as_str()); }
    if case.stale_log {
        // an older, longer log already sits at the path: it must be replaced, not overlaid
        let path = dir.join(&case.log_path);
        if let Some(parent) = path.parent() { let _ = std::fs::create_dir_all(parent); }
        let mut old = String::from("timestamp,event,heap\n1,S,0\n");
        for i in 0..400 { old.push_str(&format!("{},A,{}\n", i + 2, (i + 1) * 1000)); }
        std::fs::write(&path, old).unwrap();
    }
    if let Some(sched) = &case.overlap_logdir {
        let choices: Vec<u8> = sched.bytes().map(|b| b.wrapping_sub(b'0')).collect();
        let mut mk = |log: &str| { let mut a: Vec<&str> = vec![case.action.as_str(), input, "--heap-log", log]; if let Some(s) = &size_text { a.push("--heap-size"); a.push(s.as_str()); }
            let mut c = Child::new(case.profile, &a); c.shim = Some(ShimCfg { seed: case.hash_seed ^ 0x55, clock: case.clock.clone(), ..Default::default() }); c };
        let (ca, cb) = (mk("racedir/sub/a.csv"), mk("racedir/sub/b.csv"));
        let (ra, rb, order) = super::proc::run_scheduled_pair(&dir, &ca, &cb, "mkdir", &choices);
        children += 2;
        let logs = [std::fs::read(dir.join("racedir/sub/a.csv")), std::fs::read(dir.join("racedir/sub/b.csv"))];
        let _ = std::fs::remove_dir_all(&dir);
        if p.exit == Exit::Timeout || ra.exit == Exit::Timeout || rb.exit == Exit::Timeout { return Ok(None); }
        for (which, r, log) in [("first", &ra, &logs[0]), ("second", &rb, &logs[1])] {
            if r.exit != p.exit || r.stdout != p.stdout {
                return Err(("H6:behaviour_changed_by_memory_flags".into(), format!("two live runs logging into the same new directory (schedule `{}`): the {} one ended with {} / {} bytes of stdout; alone and without flags: {} / {} bytes", order, which, r.exit.show(), r.stdout.len(), p.exit.show(), p.stdout.len())));
            }
            if !matches!(inproc.end, RunEnd::Init(_)) {
                let total = inproc.heap.len().max(inproc.alloc_marks.len());
                let ok = match log { Ok(b) => parse_log(b).map(|pl| pl.sizes.len() == total || pl.sizes.len() == total + 1).unwrap_or(false), Err(_) => false };
                if !ok { return Err(("H1:log_malformed".into(), format!("two live runs logging into the same new directory (schedule `{}`): the log of the {} one is missing, malformed or incomplete", order, which))); }
            }
        }
        return Ok(Some(ObsB { children, clock_reads: 0, clock_backwards: false, log_faults: 0, failing: ra.exit.is_clean_failure(), records: 0, stdout_fault_fired: false }));
    }
    let fifo_reader = if case.fifo_log {
        extern "C" { fn mkfifo(path: *const std::os::raw::c_char, mode: u32) -> i32; }
        let path = dir.join(&case.log_path);
        let cpath = std::ffi::CString::new(path.to_string_lossy().as_bytes()).unwrap();
        unsafe { mkfifo(cpath.as_ptr(), 0o644); }
        // the lazy reader: opens the FIFO (which lets the writer's open return), then drains it every 20 ms until end of file
        Some(std::thread::spawn(move || {
            use std::io::Read;
            let mut all = Vec::new();
            if let Ok(mut f) = std::fs::File::open(&path) {
                let mut buf = vec![0u8; 1 << 20];
                // nothing is read for a quarter of a second: whatever the writer produces meanwhile beyond the pipe's 64 KiB has to wait
                std::thread::sleep(std::time::Duration::from_millis(250));
                loop {
                    std::thread::sleep(std::time::Duration::from_millis(20));
                    match f.read(&mut buf) { Ok(0) => break, Ok(n) => all.extend_from_slice(&buf[..n]), Err(_) => break }
                }
            }
            all
        }))
    } else { None };
    let mut flagged = Child::new(case.profile, &args);
    flagged.deleted_cwd = case.deleted_cwd;
    let full_plan = match &case.stdout_fault { Some(sf) if case.plan.is_empty() => sf.clone(), Some(sf) => format!("{};{}", case.plan, sf), None => case.plan.clone() };
    let mut full_plan = full_plan;
    if let Some(lh) = &case.log_hard {
        // where the undisturbed run writes its log: count its write calls on the log fd first
        flagged.shim = Some(ShimCfg { seed: case.hash_seed ^ 0x55, plan: String::new(), clock: case.clock.clone(), budget: Some(2_000_000), clock_extra_s: case.clock_extra_s, as_limit: case.as_limit, ..Default::default() });
        let dry = run_child(&dir, &flagged);
        children += 1;
        let n = dry.trace.lines().filter(|l| l.starts_with("W f ")).count();
        let resolved = lh.replace("$-1", &n.saturating_sub(1).to_string()).replace("$-2", &n.saturating_sub(2).to_string()).replace("$/2", &(n / 2).to_string());
        full_plan = if full_plan.is_empty() { resolved } else { format!("{};{}", full_plan, resolved) };
        let _ = std::fs::remove_file(dir.join(&case.log_path));
    }
    flagged.shim = Some(ShimCfg { seed: case.hash_seed ^ 0x55, plan: full_plan, clock: case.clock.clone(), junk: 0, budget: Some(2_000_000), clock_extra_s: case.clock_extra_s, as_limit: case.as_limit });
    let f = run_child(&dir, &flagged);
    children += 1;
    let log_hard_fired = case.log_hard.is_some() && f.trace.lines().any(|l| l.starts_with("W f ") && l.contains("-> E") && !l.ends_with("-> E4"));
    let log_is_stderr = case.log_path == "/proc/self/fd/2";
    let log = if log_is_stderr { Ok(f.stderr.clone()) } else { match fifo_reader {
        // if the tool never opened the FIFO for writing the reader is still waiting in open(): open and close the write side
        Some(h) => { let _ = std::fs::OpenOptions::new().write(true).open(dir.join(&case.log_path)); Ok(h.join().unwrap_or_default()) }
        None => std::fs::read(dir.join(&case.log_path)),
    } };
    let _ = std::fs::remove_dir_all(&dir);
    if p.exit == Exit::Timeout || f.exit == Exit::Timeout {
        return Ok(None);
    }
    if f.budget_exceeded() {
        return Err(("H9:no_progress_writing_log".into(), "the log fd call budget was exhausted".into()));
    }
    if log_hard_fired {
        // the disk under the log failed: the run may fail (not by a signal), and then nothing more is claimed; a run that exits 0
        // like the flag-free one must have left the complete log (a failing program fails either way: nothing to tell apart)
        if f.exit.is_native_crash() { return Err(("H8:crash_with_memory_flags".into(), format!("{} when a write to the heap log failed", f.exit.show()))); }
        if f.exit.is_success() && p.exit.is_success() && f.stdout == p.stdout {
            let total = inproc.heap.len().max(inproc.alloc_marks.len());
            let ok = match &log { Ok(b) => parse_log(b).map(|pl| pl.sizes.len() == total || (pl.sizes.len() == total + 1 && matches!(inproc.end, RunEnd::Panic(_)))).unwrap_or(false), Err(_) => false };
            if !ok && !matches!(inproc.end, RunEnd::Init(_)) {
                return Err(("H7:log_incomplete_but_run_reported_like_the_flag_free_run".into(), format!("a write to the heap log failed for good (plan `{}`), yet `fml {}` ended like the flag-free run ({}); the log is incomplete or malformed: {} bytes, {} records expected",
                    case.log_hard.clone().unwrap_or_default(), case.action, f.exit.show(), log.as_ref().map(|b| b.len()).unwrap_or(0), total)));
            }
        }
        return Ok(Some(ObsB { children, clock_reads: 0, clock_backwards: false, log_faults: 0, failing: f.exit.is_clean_failure(), records: 0, stdout_fault_fired: false }));
    }
    if p.exit != f.exit || p.stdout != f.stdout {
        return Err(("H6:behaviour_changed_by_memory_flags".into(), format!("`fml {}` without flags: {} / {} bytes of stdout; with --heap-log{}: {} / {} bytes",
            case.action, p.exit.show(), p.stdout.len(), size_text.as_ref().map(|s| format!(" --heap-size {}", s)).unwrap_or_default(), f.exit.show(), f.stdout.len())));
    }
    if p.stderr.is_empty() != f.stderr.is_empty() && !log_is_stderr {
        return Err(("H6:diagnostics_changed_by_memory_flags".into(), "stderr is empty in one run and not in the other".into()));
    }
    if f.exit.is_native_crash() {
        return Err(("H8:crash_with_memory_flags".into(), f.exit.show()));
    }
    if matches!(inproc.end, RunEnd::Init(_)) {
        return Ok(None); // the VM never starts, so no log is opened: nothing to check beyond inertness
    }
    let log = match log {
        Ok(b) => b,
        Err(e) => return Err(("H1:log_not_written".into(), format!("{}: {}", case.log_path, e))),
    };
    let parsed = parse_log(&log).map_err(|e| ("H1:log_malformed".to_string(), e))?;
    increments(&parsed.sizes).map_err(|e| ("H3:size_not_strictly_increasing".to_string(), e))?;
    // same program, same history: the CLI's records must be the in-process ones (whether it ended well or not)
    let comparable = !matches!(inproc.end, RunEnd::Panic(_));
    let stdout_fault_fired = f.trace.lines().any(|l| l.starts_with("W o ") && l.contains("-> E") && !l.ends_with("-> E4"));
    if stdout_fault_fired {
        // the run was cut short by its stdout: the log holds a prefix of the program's allocation history (same cumulative sizes
        // as the undisturbed in-process history has) that covers at least every allocation made before the last byte that arrived
        let arrived = f.stdout.len().max(1);
        let at_least = inproc.alloc_marks.iter().filter(|m| **m < arrived).count();
        // (after a panic inside the VM the heap is not enumerated; the marks were taken step by step and are complete up to it)
        let total = inproc.heap.len().max(inproc.alloc_marks.len());
        if parsed.sizes.len() < at_least || parsed.sizes.len() > total {
            return Err(("H2:records_lost_when_stdout_failed".into(), format!("stdout failed after {} bytes had arrived; the program had created {} arrays/objects before producing that much output (and creates {} in all), the log holds {} A records",
                f.stdout.len(), at_least, total, parsed.sizes.len())));
        }
    } else if comparable {
        if parsed.sizes.len() != inproc.heap.len() {
            return Err(("H2:record_count_differs_from_heap".into(), format!("the CLI logged {} A records; the program creates {} arrays/objects before it {}", parsed.sizes.len(), inproc.heap.len(),
                if inproc.end == RunEnd::Ok { "ends" } else { "fails" })));
        }
    }
    if !stdout_fault_fired && !comparable {
        // the VM panicked part-way (zero divisor, ...): the heap could not be enumerated in-process, but the allocations were
        // counted step by step up to the panicking step (which itself may or may not have allocated before it panicked)
        let n = inproc.alloc_marks.len();
        if parsed.sizes.len() < n || parsed.sizes.len() > n + 1 {
            return Err(("H2:record_count_differs_from_heap".into(), format!("the CLI logged {} A records; the program creates {} arrays/objects before it panics", parsed.sizes.len(), n)));
        }
    }
    let mut reads = 0u64;
    let mut back = false;
    let mut last: Option<i64> = None;
    let mut log_faults = 0u64;
    for l in f.trace.lines() {
        if let Some(rest) = l.strip_prefix("C ") {
            reads += 1;
            if let Some(v) = rest.split("-> ").nth(1).and_then(|x| x.trim().parse::<i64>().ok()) {
                if let Some(pv) = last { if v < pv { back = true; } }
                last = Some(v);
            }
        }
        if l.starts_with("W f ") && (l.ends_with("short") || l.ends_with("-> E4")) { log_faults += 1; }
    }
    if case.clock.is_some() && reads as usize != parsed.sizes.len() + 1 {
        // one clock reading per record: S + every A (informational invariant of the seam, not a verdict)
    }
    Ok(Some(ObsB { children, clock_reads: reads, clock_backwards: back, log_faults, failing: f.exit.is_clean_failure(), records: parsed.sizes.len(), stdout_fault_fired }))
}

pub fn replay_b(v: &Value) -> Result<Option<(String, String)>, String> {
    let case = CaseB::from_json(v).ok_or("malformed heap-log process replay")?;
    match check_b(&case) {
        Ok(_) => Ok(None),
        Err((o, d)) => Ok(Some((o, d))),
    }
}

fn minimise_b(case: &CaseB, oracle: &str) -> CaseB {
    let want = oracle.split(':').next().unwrap_or("").to_string();
    let still = |c: &CaseB| matches!(check_b(c), Err((o, _)) if o.split(':').next().unwrap_or("") == want);
    let mut best = case.clone();
    if !best.plan.is_empty() { let mut c = best.clone(); c.plan = String::new(); if still(&c) { best = c; } }
    if best.clock.is_some() { let mut c = best.clone(); c.clock = None; if still(&c) { best = c; } }
    if best.stale_log { let mut c = best.clone(); c.stale_log = false; if still(&c) { best = c; } }
    if best.stdout_fault.is_some() { let mut c = best.clone(); c.stdout_fault = None; if still(&c) { best = c; } }
    if best.clock_extra_s.is_some() { let mut c = best.clone(); c.clock_extra_s = None; if still(&c) { best = c; } }
    if best.as_limit.is_some() { let mut c = best.clone(); c.as_limit = None; if still(&c) { best = c; } }
    if best.deleted_cwd { let mut c = best.clone(); c.deleted_cwd = false; if still(&c) { best = c; } }
    if best.overlap_logdir.is_some() { let mut c = best.clone(); c.overlap_logdir = None; if still(&c) { best = c; } }
    if best.size_mb.is_some() { let mut c = best.clone(); c.size_mb = None; if still(&c) { best = c; } }
    if best.action != "run" { let mut c = best.clone(); c.action = "run".into(); if still(&c) { best = c; } }
    if let ProgSpec::Stmts(stmts) = &best.spec {
        let mut stmts = stmts.clone();
        let mut j = stmts.len();
        while j > 0 {
            j -= 1;
            if stmts.len() <= 1 { break; }
            let mut cand = stmts.clone();
            cand.remove(j);
            let mut c = best.clone();
            c.spec = ProgSpec::Stmts(cand.clone());
            if still(&c) { stmts = cand; best = c; }
        }
    }
    best
}

// ------------------------------------------------------------------------------------------------

pub fn counted_templates() -> Vec<(String, u64)> {
    vec![
        // o, then 3 x o.get(0) -> 3 arrays, then the outer array: 1 + 3 + 1
        ("let o = object begin function get(i) -> array(2, i); end;\nlet k = 0;\nlet a = array(3, o[k]);\nprint(\"~\\n\", a)\n".into(), 5),
        // the same through a literal index and a field
        ("let o = object begin let n = 1; function get(i) -> object begin let v = i; end; end;\nlet a = array(4, o[7]);\nprint(\"~\\n\", a)\n".into(), 6),
        // a function call as initialiser: once per element
        ("function mk() -> array(1, 0);\nlet a = array(5, mk());\nprint(\"~\\n\", a)\n".into(), 6),
        // size 0 and 1: the initialiser runs 0 times / once
        ("function mk() -> object begin end;\nlet a = array(0, mk());\nlet b = array(1, mk());\nprint(\"~ ~\\n\", a, b)\n".into(), 3),
        // nested compound initialisers: 2 x (inner array of 3 objects) -> 2 * (3 + 1) + 1
        ("let a = array(2, array(3, object begin end));\nprint(\"~\\n\", a)\n".into(), 9),
        // an array element read is not an allocation; a simple initialiser is evaluated once and shared
        ("let src = array(2, 5);\nlet a = array(6, src[1]);\nlet b = array(3, src);\nprint(\"~ ~\\n\", a, b)\n".into(), 3),
    ]
}

fn allocating_cfg(rng: &mut Rng) -> GenCfg {
    let mut cfg = GenCfg::swarm(rng);
    cfg.f_objects = true;
    cfg.f_arrays = true;
    cfg.tame_arith = true;
    if cfg.strings == StrRegime::Long { cfg.strings = StrRegime::Plain; }
    cfg.stmts = cfg.stmts.max(4);
    cfg
}

struct OutA {
    evaluations: u64,
    distinct: Vec<u64>,
    shapes: Vec<(Shape, u64)>,
    counted: u64,
    exceeded: u64,
    records: u64,
    failing_with_records: u64,
    violation: Option<(CaseA, String, String)>,
    sample: Option<Value>,
}

pub fn run(seed: u64, tier: &str, ev: &mut Evidence) -> Vec<Violation> {
    let thorough = tier == "thorough";
    let (mut n_a, mut n_b) = if thorough { (250_000usize, 200_000usize) } else { (2000, 1200) };
    if let Some(v) = std::env::var("VERIF_DEBUG_C16_NA").ok().and_then(|s| s.parse().ok()) { n_a = v; }
    if let Some(v) = std::env::var("VERIF_DEBUG_C16_NB").ok().and_then(|s| s.parse().ok()) { n_b = v; }
    // ---- (A) -----------------------------------------------------------------------------------
    let mut specs: Vec<(ProgSpec, Option<u64>)> = work::corpus_specs().into_iter().filter(|(_, s)| s.source().is_some()).map(|(_, s)| (s, None)).collect();
    for (_, src) in work::scale_templates() {
        specs.push((ProgSpec::Source(src), None));
    }
    // hand-written programs whose allocation count is known by reading them: evaluation counts of compound initialisers, of
    // `x[k]` on an object (an ordinary call of its `get`), of calls in argument position — once per element, never hoisted or shared
    for (src, n) in counted_templates() {
        specs.push((ProgSpec::Source(src), Some(n)));
    }
    for j in 0..n_a {
        let mut rng = Rng::for_case(seed, "C16", "workload", j as u64);
        let cfg = allocating_cfg(&mut rng);
        let (mut spec, mut allocs) = work::gen_source_spec(&mut rng, &cfg);
        if j % 4 == 2 {
            // one value far larger than the small heap sizes of the set: --heap-size must stay inert even when exceeded
            if let ProgSpec::Stmts(v) = &mut spec {
                let at = rng.usize_below(v.len() + 1);
                v.insert(at, format!("let zzbig{} = array({}, 0)", j, rng.pick(&[70_000usize, 140_000, 300_000])));
                allocs = allocs.map(|a| a + 1);
            }
        }
        if j % 9 == 4 {
            // a program that fails part-way: the log must hold exactly the allocations made before the failure
            if let ProgSpec::Stmts(v) = &mut spec {
                let at = rng.usize_below(v.len() + 1);
                v.insert(at, (*rng.pick(&["zz_undefined_variable", "array(3, 0)[3]", "(object begin end).nope()", "1 + null"])).to_string());
                allocs = None;
            }
        }
        specs.push((spec, allocs));
    }
    let outs: Vec<OutA> = par_map(specs.len(), |i| {
        let mut rng = Rng::for_case(seed, "C16", ENGINE_A, i as u64);
        let mut out = OutA { evaluations: 0, distinct: vec![], shapes: vec![], counted: 0, exceeded: 0, records: 0, failing_with_records: 0, violation: None, sample: None };
        let (spec, allocs) = &specs[i];
        let digest = digest_bytes(spec.source().unwrap_or_default().as_bytes());
        // every heap size of the set for a sample of programs, a random one for the rest
        let sizes: Vec<usize> = if i % 5 == 0 { SIZES_MB_IN_PROCESS.to_vec() } else { vec![*rng.pick(&SIZES_MB_IN_PROCESS)] };
        for size_mb in sizes {
            let case = CaseA { spec: spec.clone(), expected_allocs: *allocs, size_mb };
            super::util::breadcrumb("C16", json!({"kind": "c16a", "case": case.to_json()}));
            out.evaluations += 1;
            match check_a(&case) {
                Ok(Some(o)) => {
                    if !o.shapes.is_empty() {
                        out.distinct.push(digest_of(&(digest, size_mb)));
                    }
                    out.records += o.shapes.len() as u64;
                    if allocs.is_some() { out.counted += 1; }
                    if o.exceeded { out.exceeded += 1; }
                    if out.shapes.is_empty() {
                        let mut seen: Vec<&Shape> = Vec::new();
                        for (s, inc) in o.shapes.iter().zip(o.incs.iter()) {
                            if !seen.contains(&s) { seen.push(s); out.shapes.push((s.clone(), *inc)); }
                        }
                    }
                    if out.sample.is_none() && !o.shapes.is_empty() && rng.below(60) == 0 {
                        out.sample = Some(json!({"engine": ENGINE_A, "program_brief": spec.brief(), "heap_size_mb": size_mb, "allocations_by_construction": allocs,
                            "A_records": o.shapes.len(), "first_shapes": o.shapes.iter().take(3).map(|s| s.describe()).collect::<Vec<_>>(), "first_increments": o.incs.iter().take(3).collect::<Vec<_>>()}));
                    }
                }
                Ok(None) => {}
                Err((o, d)) => {
                    if out.violation.is_none() { out.violation = Some((case, o, d)); }
                }
            }
        }
        out
    });
    let mut raw_a: Vec<(CaseA, String, String)> = Vec::new();
    let mut table: BTreeMap<Shape, (u64, usize)> = BTreeMap::new();
    let mut cross: Option<(usize, usize, Shape, u64, u64)> = None;
    let (mut counted, mut records, mut exceeded) = (0u64, 0u64, 0u64);
    for (i, o) in outs.into_iter().enumerate() {
        ev.evaluations += o.evaluations;
        for d in o.distinct { ev.distinct.insert(d); }
        counted += o.counted;
        records += o.records;
        exceeded += o.exceeded;
        if let Some(s) = o.sample { if ev.samples.len() < 3 { ev.sample(s); } }
        if let Some(v) = o.violation { raw_a.push(v); }
        for (s, inc) in o.shapes {
            match table.get(&s) {
                Some((prev, j)) if *prev != inc => {
                    if cross.is_none() { cross = Some((*j, i, s.clone(), *prev, inc)); }
                }
                Some(_) => {}
                None => { table.insert(s, (inc, i)); }
            }
        }
    }
    ev.count("layer_a.history_checks_with_allocation_count_known_by_construction", counted);
    ev.count("layer_a.A_records_checked_against_enumerated_heap", records);
    ev.count("probe.layer_a.runs_allocating_more_than_heap_size", exceeded);
    ev.count("layer_a.distinct_shapes_in_increment_table", table.len() as u64);
    let mut violations: Vec<Violation> = Vec::new();
    if let Some((j, i, shape, a, b)) = cross {
        let mut replay = CaseA { spec: specs[j].0.clone(), expected_allocs: None, size_mb: 0 }.to_json();
        replay.as_object_mut().unwrap().insert("other_program".into(), specs[i].0.to_json());
        violations.push(Violation {
            property: "C16".into(),
            oracle: "H4:increment_not_a_function_of_shape".into(),
            detail: format!("shape {} logged with increment {} in one program and {} in another", first_line(&shape.describe(), 120), a, b),
            signature: json!({"engine": ENGINE_A, "oracle": "H4"}),
            replay,
        });
    }
    let mut seen: Vec<String> = Vec::new();
    for (case, oracle, detail) in raw_a {
        if seen.contains(&oracle) { continue; }
        seen.push(oracle.clone());
        let small = minimise_a(&case, &oracle);
        let (c, o, d) = match check_a(&small) { Err((o2, d2)) => (small, o2, d2), _ => (case, oracle, detail) };
        violations.push(Violation { property: "C16".into(), oracle: o.clone(), detail: d, signature: json!({"engine": ENGINE_A, "oracle": o}), replay: c.to_json() });
    }
    // ---- (B) -----------------------------------------------------------------------------------
    let clocks: [Option<&str>; 6] = [
        None,
        Some("1700000000000000000:1000"),
        Some("1700000000000000000:0"),
        Some("1700000000000000000:1000000;1:-5000000000;3:-1"),
        Some("4102444800000000000:7;2:900000000000000000"),
        Some("1000000000:1;1:-999999999999"),
    ];
    let scale = work::scale_templates();
    let outs_b: Vec<(u64, Option<ObsB>, Option<(CaseB, String, String)>, CaseB)> = par_map(n_b, |i| {
        let mut rng = Rng::for_case(seed, "C16", ENGINE_B, i as u64);
        let cfg = allocating_cfg(&mut rng);
        let (mut spec, _) = work::gen_source_spec(&mut rng, &cfg);
        if i < scale.len() { spec = ProgSpec::Source(scale[i].1.clone()); }
        if i % 3 == 1 {
            if let ProgSpec::Stmts(v) = &mut spec {
                let at = rng.usize_below(v.len() + 1);
                v.insert(at, (*rng.pick(&["zz_undefined_variable", "array(3, 0)[3]", "(object begin end).nope()", "print(\"~ ~\\n\", 1)", "1 / 0"])).to_string());
            }
        }
        if i % 4 == 2 {
            if let ProgSpec::Stmts(v) = &mut spec {
                let at = rng.usize_below(v.len() + 1);
                v.insert(at, format!("let zzbig{} = array({}, 0)", i, rng.pick(&[70_000usize, 140_000, 300_000])));
            }
        }
        let case = CaseB {
            spec,
            profile: if rng.coin() { Profile::Debug } else { Profile::Release },
            action: if rng.below(3) == 0 { "execute".into() } else { "run".into() },
            size_mb: if rng.below(4) == 0 { None } else { Some(*rng.pick(&SIZES_MB)) },
            log_path: (*rng.pick(&["heap.csv", "logs/heap.csv", "a/b/c/heap log.csv", "./h", "lnk/../heap.csv", "./logs/./x/../heap.csv"])).to_string(),
            clock: match rng.below(9) {
                // a clock that runs backwards steadily: every reading is earlier than the one before
                0 => Some("1700000000000000000:-1000000".to_string()),
                // set back once, by a seeded amount, at a seeded reading (anywhere in the first 16)
                1 | 2 => Some(format!("1700000000000000000:1000;{}:-{}", rng.below(16), 10u64.pow(3 + rng.below(10) as u32))),
                // set back twice
                3 => Some(format!("1700000000000000000:50;{}:-{};{}:-{}", rng.below(6), 1_000_000_000u64, 6 + rng.below(10), 3_600_000_000_000u64)),
                _ => (*rng.pick(&clocks)).map(|s| s.to_string()),
            },
            plan: match rng.below(4) { 0 => format!("f:*:l:{}", rng.pick(&[1u32, 2, 3, 5])), 1 => format!("f:{}:e:0", rng.below(8)), 2 => format!("f:{}:s:1", rng.below(8)), _ => String::new() },
            stale_log: rng.below(4) == 0,
            hash_seed: rng.next_u64(),
            stdout_fault: None,
            clock_extra_s: None,
            as_limit: None,
            log_hard: None,
            deleted_cwd: rng.below(12) == 0,
            overlap_logdir: None,
            fifo_log: false,
        };
        let mut case = case;
        if i % 13 == 6 { case.overlap_logdir = Some((0..10).map(|_| if rng.coin() { '1' } else { '0' }).collect()); case.plan = String::new(); case.stale_log = false; case.deleted_cwd = false; }
        if i < scale.len() && scale[i].0.starts_with("allocations_6000") { case.fifo_log = true; case.plan = String::new(); case.stale_log = false; case.deleted_cwd = false; case.overlap_logdir = None; case.log_path = "heap.fifo".into(); }
        match i % 11 {
            // the wall clock is centuries ahead (a dead RTC battery reads anything): beyond 64-bit nanoseconds since the epoch
            2 => { case.clock_extra_s = Some(*rng.pick(&[32_503_680_000i64, 253_402_300_800, 4_000_000_000_000])); if case.clock.is_none() { case.clock = Some("1700000000000000000:1000".into()); } }
            // little address space (container limit, ulimit -v): nothing the flags do may need more of it
            5 => { case.as_limit = Some(64 << 20); if let ProgSpec::Stmts(v) = &mut case.spec { v.retain(|st| !st.contains("zzbig")); } }
            // the disk under the log fails at the log's first / last / last-but-one / middle write
            8 => { case.log_hard = Some(format!("f:{}:x:{}", rng.pick(&["0", "$-1", "$-1", "$-2", "$/2"]), rng.pick(&[28u32, 5, 122]))); case.plan = String::new(); case.stdout_fault = None; }
            _ => {}
        }
        if case.fifo_log || case.overlap_logdir.is_some() { case.log_hard = None; case.as_limit = None; }
        // the log named through the descriptor directory (what `--heap-log >(gzip > x.gz)` passes): here descriptor 2, a pipe the
        // harness reads; only for programs that end well and quietly, so that the pipe carries the log and nothing else
        if i % 17 == 9 && !case.fifo_log && case.overlap_logdir.is_none() && case.log_hard.is_none() && !case.stale_log && !case.deleted_cwd && case.plan.is_empty() {
            if let Ok(prog) = case.spec.build() { if vm::run(&prog, &RunCfg { step_budget: 1_500_000, ..Default::default() }).end == RunEnd::Ok { case.log_path = "/proc/self/fd/2".into(); } }
        }
        if i % 5 == 3 && case.log_hard.is_none() && !case.fifo_log && case.overlap_logdir.is_none() && case.log_path != "/proc/self/fd/2" {
            // stdout fails hard at one of its first write calls (EPIPE: the reader went away; ENOSPC/EIO: the redirection target)
            case.stdout_fault = Some(format!("o:{}:x:{}", rng.below(6), rng.pick(&[32u32, 32, 28, 5])));
        }
        match check_b(&case) {
            Ok(o) => (1, o, None, case),
            Err((o, d)) => (1, None, Some((case.clone(), o, d)), case),
        }
    });
    let (mut children, mut reads, mut back, mut faults, mut failing, mut recs) = (0u64, 0u64, 0u64, 0u64, 0u64, 0u64);
    let mut stdout_failed = 0u64;
    let mut raw_b = Vec::new();
    for (n, obs, v, case) in outs_b {
        ev.evaluations += n;
        if let Some(o) = obs {
            children += o.children;
            reads += o.clock_reads;
            if o.clock_backwards { back += 1; }
            faults += o.log_faults;
            if o.failing { failing += 1; }
            if o.stdout_fault_fired { stdout_failed += 1; }
            if case.fifo_log { ev.count("layer_b.runs_logging_into_a_fifo_with_a_lazy_reader", 1); }
            if case.overlap_logdir.is_some() { ev.count("layer_b.pairs_of_live_runs_logging_into_the_same_new_directory", 1); }
            recs += o.records as u64;
            ev.distinct.insert(digest_of(&(digest_bytes(case.spec.source().unwrap_or_default().as_bytes()), case.profile, &case.action, case.size_mb, &case.log_path, &case.clock, &case.plan)));
            if ev.samples.len() < 6 && o.records > 0 && (o.clock_backwards || o.log_faults > 0) {
                ev.sample(json!({"engine": ENGINE_B, "program_brief": case.spec.brief(), "profile": case.profile.name(), "action": case.action, "heap_size_mb": case.size_mb,
                    "log_path": case.log_path, "clock_script": case.clock, "log_fd_plan": case.plan, "A_records": o.records, "clock_reads": o.clock_reads,
                    "clock_went_backwards": o.clock_backwards, "log_write_faults_fired": o.log_faults, "program_failed_part_way": o.failing}));
            }
        }
        if let Some(x) = v { raw_b.push(x); }
    }
    ev.count("layer_b.children_spawned", children);
    ev.count("layer_b.simulated_clock_reads", reads);
    ev.count("layer_b.runs_where_clock_went_backwards", back);
    ev.count("layer_b.log_fd_write_faults_fired", faults);
    ev.count("layer_b.programs_failing_part_way", failing);
    ev.count("layer_b.runs_cut_short_by_a_hard_error_on_stdout", stdout_failed);
    ev.count("layer_b.A_records_checked", recs);
    let mut seen: Vec<String> = Vec::new();
    for (case, oracle, detail) in raw_b {
        if seen.contains(&oracle) { continue; }
        seen.push(oracle.clone());
        let small = minimise_b(&case, &oracle);
        let (c, o, d) = match check_b(&small) { Err((o2, d2)) => (small, o2, d2), _ => (case, oracle, detail) };
        violations.push(Violation { property: "C16".into(), oracle: o.clone(), detail: d, signature: json!({"engine": ENGINE_B, "oracle": o, "action": c.action}), replay: c.to_json() });
    }
    violations
}

pub fn replay_unit(u: &Value) -> Result<(), String> {
    let case = CaseA::from_json(u.get("case").ok_or("no case")?).ok_or("bad case")?;
    let _ = check_a(&case);
    Ok(())
}
