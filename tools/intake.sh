#!/bin/bash
# tools/intake.sh <agent-out-dir> <seeded-id> <property> "<wave note>"
# Copy a sub-agent's change into seeded/<id>/, confirm it in the scratch worktree /tmp/fml-own (compiles, 259 tests pass,
# demo fails with the change and passes without), run the quick check of the property against it, write meta.json.
set -u
src="$(readlink -f "$1")"; id="$2"; prop="$3"; note="${4:-}"
dst="/verif/seeded/$id"
mkdir -p "$dst"; cp -r "$src"/. "$dst"/
[ -d /tmp/fml-own ] || git -C /repo worktree add --detach -q /tmp/fml-own HEAD
conf="$(/verif/tools/confirm_mutant.sh "$dst" 2>/dev/null | tail -1)"
res="$(/verif/tools/try_mutant.sh "$dst/patch.diff" "$prop" 2>&1 | tail -1)"
first="caught"; case "$res" in MISSED*) first="MISSED";; HARNESS*) first="HARNESS-ERROR";; esac
python3 - "$dst" "$id" "$prop" "$note" "$conf" "$res" "$first" <<'P'
import json,sys,os
dst,id_,prop,note,conf,res,first=sys.argv[1:8]
try: c=json.loads(conf)
except Exception: c={"raw":conf}
readme=""
for n in ("README.md","README"):
    if os.path.exists(os.path.join(dst,n)): readme=open(os.path.join(dst,n)).read(); break
meta={"id":id_,"origin":"fresh sub-agent ("+note+"), given only the property text and its own scratch worktree","breaks":prop,
 "needs_to_manifest":"see README.md","confirmed_by_me":dict(how="tools/confirm_mutant.sh",**c),
 "checks_run":"tools/try_mutant.sh <patch> %s (quick, default seed)"%prop,"first_contact":first,"strengthening_it_led_to":"","final_result":res}
json.dump(meta,open(os.path.join(dst,"meta.json"),"w"),indent=1)
print(id_,"|",conf,"|",res[:260])
P
