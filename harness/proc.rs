//! Layer B: the unmodified CLI path of the same binary as a child process, under the LD_PRELOAD
//! shim that owns entropy, wall clock and read/write outcomes (DESIGN §3.2).
//! The harness reads no clock here; the watchdog is a CPU-time rlimit inside the child.

use serde_json::{json, Value};
use std::os::unix::process::{CommandExt, ExitStatusExt};
#[allow(unused_imports)]
use std::os::unix::process::CommandExt as _;
use std::path::{Path, PathBuf};
use std::process::{Command, Stdio};
use std::sync::atomic::{AtomicU64, Ordering};

#[derive(Clone, Copy, Debug, PartialEq, Eq, Hash)]
pub enum Profile {
    Debug,
    Release,
}

impl Profile {
    pub fn name(&self) -> &'static str {
        match self {
            Profile::Debug => "debug",
            Profile::Release => "release",
        }
    }
    pub fn from_name(s: &str) -> Option<Profile> {
        match s {
            "debug" => Some(Profile::Debug),
            "release" => Some(Profile::Release),
            _ => None,
        }
    }
}

pub fn binary(profile: Profile) -> PathBuf {
    let var = match profile {
        Profile::Debug => "FMLSIM_BIN_DEBUG",
        Profile::Release => "FMLSIM_BIN_RELEASE",
    };
    if let Ok(p) = std::env::var(var) {
        return PathBuf::from(p);
    }
    // siblings of the running binary: <target>/<profile>/fml
    let exe = std::env::current_exe().expect("current_exe");
    let target = exe.parent().and_then(|p| p.parent()).expect("target dir").to_path_buf();
    target.join(profile.name()).join("fml")
}

pub fn shim_path() -> PathBuf {
    PathBuf::from(std::env::var("FMLSIM_SHIM").unwrap_or_else(|_| "/verif/build/libfmlsim.so".to_string()))
}

#[derive(Clone, Debug, Default, PartialEq, Eq, Hash)]
pub struct ShimCfg {
    pub seed: u64,
    /// FMLSIM_PLAN text, see shim/fmlsim.c
    pub plan: String,
    /// FMLSIM_CLOCK text
    pub clock: Option<String>,
    pub junk: u32,
    pub budget: Option<u64>,
    /// seconds added to every scripted clock reading (clocks beyond year 2262 / 2554)
    pub clock_extra_s: Option<i64>,
    /// address-space rlimit of the child in bytes (default 12 GiB)
    pub as_limit: Option<u64>,
}

impl ShimCfg {
    pub fn to_json(&self) -> Value {
        json!({"seed": self.seed, "plan": self.plan, "clock": self.clock, "junk": self.junk, "budget": self.budget, "clock_extra_s": self.clock_extra_s, "as_limit": self.as_limit})
    }
    pub fn from_json(v: &Value) -> Option<ShimCfg> {
        Some(ShimCfg {
            seed: v.get("seed")?.as_u64()?,
            plan: v.get("plan")?.as_str()?.to_string(),
            clock: v.get("clock").and_then(|c| c.as_str()).map(|s| s.to_string()),
            junk: v.get("junk").and_then(|c| c.as_u64()).unwrap_or(0) as u32,
            budget: v.get("budget").and_then(|c| c.as_u64()),
            clock_extra_s: v.get("clock_extra_s").and_then(|c| c.as_i64()),
            as_limit: v.get("as_limit").and_then(|c| c.as_u64()),
        })
    }
}

/// Environment blocks a deployment may carry: locale, terminal, time zone, the variables logging and tracing crates and the
/// Rust runtime look at, temp/home directories that do not exist. No result may depend on any of them.
pub const ENV_SETS: &[&[(&str, &str)]] = &[
    &[],
    &[("LANG", "C")],
    &[("LANG", "en_US.UTF-8"), ("LC_ALL", "tr_TR.UTF-8")],
    &[("TZ", "Asia/Tokyo"), ("HOME", "/nonexistent")],
    &[("TERM", "dumb"), ("COLUMNS", "7"), ("NO_COLOR", "1")],
    &[("RUST_BACKTRACE", "1")],
    &[("LC_ALL", "C.UTF-8"), ("LANGUAGE", "pl"), ("TMPDIR", "/nonexistent")],
    &[("RUST_MIN_STACK", "1048576"), ("MALLOC_PERTURB_", "165")],
    &[("RUST_LOG", "debug")],
    &[("RUST_LOG", "trace"), ("RUST_LOG_STYLE", "always"), ("CLICOLOR_FORCE", "1")],
    &[("DEBUG", "1"), ("VERBOSE", "1"), ("FML_DEBUG", "1"), ("FML_TRACE", "1")],
    &[("RUST_LIB_BACKTRACE", "1"), ("RUST_BACKTRACE", "full")],
    &[("CLAP_DEBUG", "1"), ("TERM", "xterm-256color"), ("COLORTERM", "truecolor")],
];

pub fn env_set(rng: &mut super::util::Rng) -> Vec<(String, String)> {
    rng.pick(ENV_SETS).iter().map(|(k, v)| (k.to_string(), v.to_string())).collect()
}

#[derive(Clone, Debug)]
pub enum In {
    Null,
    /// a regular file (relative to cwd) as stdin: always fully available, so chunking is the shim's
    File(String),
    /// a real pipe fed by the harness — uncontrolled chunking, used as a shim-independent witness
    Pipe(Vec<u8>),
    /// a regular file as stdin, positioned at this byte offset (what `{ a; b; } < file` or an lseek by the parent leaves)
    FileAt(String, u64),
}

#[derive(Clone, Debug)]
pub enum Out {
    /// a real pipe, captured
    Pipe,
    /// a regular file (relative to cwd); contents returned as stdout
    File(String),
    /// a regular file (relative to cwd) opened for appending: what is in it stays, stdout starts at its end; contents returned as stdout
    FileAppend(String),
    /// /dev/full: every write fails with ENOSPC (kernel-provided deterministic fault)
    DevFull,
    Null,
}

#[derive(Clone, Debug)]
pub struct Child {
    pub profile: Profile,
    pub args: Vec<String>,
    pub stdin: In,
    pub stdout: Out,
    pub env: Vec<(String, String)>,
    pub shim: Option<ShimCfg>,
    /// keep ASLR on (uncontrolled witness); default off
    pub aslr: bool,
    pub argv0: Option<String>,
    /// run this program instead of the fml binary (the wrapper script under bash)
    pub program: Option<String>,
    /// the process starts in a working directory that has been deleted under it (another process removed it): every path it is
    /// given is absolute, so nothing it is asked to do depends on the current directory; getcwd() fails with ENOENT
    pub deleted_cwd: bool,
    /// stdout (and stdin) of the tool is a terminal: it runs under script(1), which gives it a pseudo-terminal and relays what it
    /// prints (the terminal turns every LF into CR LF on the way; comparisons strip CR on both sides). stderr goes to /dev/null.
    pub stdout_tty: bool,
    /// name of the shim trace file in cwd (several children alive at once in one directory need one each)
    pub trace_name: Option<String>,
}

impl Child {
    pub fn new(profile: Profile, args: &[&str]) -> Child {
        Child {
            profile,
            args: args.iter().map(|s| s.to_string()).collect(),
            stdin: In::Null,
            stdout: Out::Pipe,
            env: Vec::new(),
            shim: None,
            aslr: false,
            argv0: None,
            program: None,
            deleted_cwd: false,
            stdout_tty: false,
            trace_name: None,
        }
    }
    pub fn describe(&self) -> Value {
        json!({
            "profile": self.profile.name(),
            "args": self.args,
            "stdin": match &self.stdin { In::Null => json!("null"), In::File(f) => json!({"file": f}), In::Pipe(b) => json!({"pipe_bytes": b.len()}), In::FileAt(f, o) => json!({"file": f, "offset": o}) },
            "stdout": match &self.stdout { Out::Pipe => json!("pipe"), Out::File(f) => json!({"file": f}), Out::FileAppend(f) => json!({"append_to_file": f}), Out::DevFull => json!("/dev/full"), Out::Null => json!("null") },
            "env": self.env,
            "shim": self.shim.as_ref().map(|s| s.to_json()),
            "aslr": self.aslr,
        })
    }
}

#[derive(Clone, Debug, PartialEq, Eq, Hash)]
pub enum Exit {
    Code(i32),
    Signal(i32),
    /// killed by the CPU-time watchdog (SIGXCPU/SIGKILL from the rlimit)
    Timeout,
}

impl Exit {
    pub fn show(&self) -> String {
        match self {
            Exit::Code(c) => format!("exit:{}", c),
            Exit::Signal(s) => format!("signal:{}", s),
            Exit::Timeout => "timeout".into(),
        }
    }
    pub fn is_success(&self) -> bool {
        *self == Exit::Code(0)
    }
    /// a clean failure: non-zero exit status, not a signal
    pub fn is_clean_failure(&self) -> bool {
        matches!(self, Exit::Code(c) if *c != 0)
    }
    pub fn is_native_crash(&self) -> bool {
        matches!(self, Exit::Signal(_))
    }
}

#[derive(Clone, Debug)]
pub struct ChildResult {
    pub exit: Exit,
    pub stdout: Vec<u8>,
    pub stderr: Vec<u8>,
    pub trace: String,
}

impl ChildResult {
    pub fn trace_has(&self, needle: &str) -> bool {
        self.trace.contains(needle)
    }
    pub fn budget_exceeded(&self) -> bool {
        self.trace.contains("BUDGET exceeded")
    }
    /// the diagnostic with digits masked (thread ids, line numbers): all non-empty lines joined
    pub fn stderr_masked(&self, max: usize) -> String {
        let s = String::from_utf8_lossy(&self.stderr);
        let joined: Vec<&str> = s.lines().map(|l| l.trim()).filter(|l| !l.is_empty() && !l.starts_with("note: run with")).collect();
        super::util::mask_digits(&joined.join(" | ")).chars().take(max).collect()
    }
    pub fn stderr_first_line_masked(&self) -> String {
        let s = String::from_utf8_lossy(&self.stderr);
        let line = s.lines().find(|l| !l.trim().is_empty()).unwrap_or("");
        super::util::mask_digits(line).chars().take(200).collect()
    }
}

#[repr(C)]
struct RLimit {
    cur: u64,
    max: u64,
}

extern "C" {
    fn personality(persona: std::os::raw::c_ulong) -> std::os::raw::c_int;
    fn setrlimit(resource: std::os::raw::c_int, rlim: *const RLimit) -> std::os::raw::c_int;
}

const RLIMIT_CPU: i32 = 0;
const RLIMIT_STACK: i32 = 3;
const RLIMIT_CORE: i32 = 4;
const RLIMIT_AS: i32 = 9;
const ADDR_NO_RANDOMIZE: u64 = 0x0040000;
pub const CPU_LIMIT_S: u64 = 20;

static SCRATCH_SEQ: AtomicU64 = AtomicU64::new(0);

// ------------------------------------------------------------------------------------------------
// Liveness guard of the harness itself. The CPU-time rlimit ends a child that spins; it cannot end one that *blocks* for ever
// (a lock nobody releases, a pipe nobody feeds). Every spawned child is registered here; one background thread kills (SIGKILL)
// any child older than WALL_LIMIT_S of wall time. The kill is reported as Exit::Timeout, which no oracle ever turns into a
// verdict — so the real clock decides nothing except that the batch ends.
pub const WALL_LIMIT_S: u64 = 45;
static WATCHED: std::sync::Mutex<Vec<(u32, std::time::Instant)>> = std::sync::Mutex::new(Vec::new());
static WATCHDOG: std::sync::Once = std::sync::Once::new();
pub static WALL_KILLS: AtomicU64 = AtomicU64::new(0);

extern "C" { fn kill(pid: i32, sig: i32) -> i32; }

fn watch(pid: u32) {
    WATCHDOG.call_once(|| {
        std::thread::spawn(|| loop {
            std::thread::sleep(std::time::Duration::from_millis(500));
            let now = std::time::Instant::now();
            if let Ok(list) = WATCHED.lock() {
                for (pid, since) in list.iter() {
                    if now.duration_since(*since).as_secs() >= WALL_LIMIT_S {
                        unsafe { kill(*pid as i32, 9); }
                        WALL_KILLS.fetch_add(1, Ordering::Relaxed);
                    }
                }
            }
        });
    });
    if let Ok(mut list) = WATCHED.lock() { list.push((pid, std::time::Instant::now())); }
}

fn unwatch(pid: u32) {
    if let Ok(mut list) = WATCHED.lock() { list.retain(|(p, _)| *p != pid); }
}

/// Called once at orchestrator start-up: limits that children inherit.
pub fn init_process_limits() {
    unsafe {
        let stack = RLimit { cur: 8 << 20, max: 8 << 20 };
        setrlimit(RLIMIT_STACK, &stack);
        let core = RLimit { cur: 0, max: 0 };
        setrlimit(RLIMIT_CORE, &core);
    }
}

pub fn scratch_root() -> PathBuf {
    PathBuf::from(format!("/dev/shm/fmlsim-{}", std::process::id()))
}

/// A fresh, empty scratch directory for one case. The name does not leak into any compared output
/// because children run with it as cwd and use relative paths only.
pub fn scratch_dir() -> PathBuf {
    let n = SCRATCH_SEQ.fetch_add(1, Ordering::Relaxed);
    let d = scratch_root().join(format!("c{}", n));
    let _ = std::fs::remove_dir_all(&d);
    std::fs::create_dir_all(&d).unwrap_or_else(|e| {
        eprintln!("HARNESS-ERROR cannot create scratch dir {}: {}", d.display(), e);
        std::process::exit(2);
    });
    d
}

pub fn cleanup_scratch_root() {
    let _ = std::fs::remove_dir_all(scratch_root());
}

fn prepare(cwd: &Path, c: &Child) -> (Command, Option<PathBuf>, PathBuf, PathBuf) {
    let bin = match &c.program { Some(p) => PathBuf::from(p), None => binary(c.profile) };
    let mut cmd;
    if c.deleted_cwd && c.program.is_none() {
        // sh makes a directory, enters it, removes it and becomes the tool; arguments naming files of cwd are made absolute
        cmd = Command::new("/bin/sh");
        cmd.arg("-c").arg("mkdir .gone.$$ && cd .gone.$$ && rmdir ../.gone.$$ && exec \"$0\" \"$@\"").arg(&bin);
        let mut prev_takes_path = false;
        for a in &c.args {
            let abs = if !a.starts_with('-') && !a.starts_with('/') && (prev_takes_path || cwd.join(a).exists()) { cwd.join(a).to_string_lossy().to_string() } else { a.clone() };
            prev_takes_path = a == "-o" || a == "--heap-log" || a == "--output-path";
            cmd.arg(abs);
        }
    } else if c.stdout_tty && c.program.is_none() && Path::new("/usr/bin/script").exists() {
        let q = |a: &str| format!("'{}'", a.replace('\'', "'\\''"));
        let line = std::iter::once(q(&bin.to_string_lossy())).chain(c.args.iter().map(|a| q(a))).collect::<Vec<_>>().join(" ");
        cmd = Command::new("/usr/bin/script");
        cmd.arg("-qefc").arg(format!("{} 2>/dev/null", line)).arg("/dev/null");
    } else {
        cmd = Command::new(&bin);
        if let Some(a0) = &c.argv0 {
            cmd.arg0(a0);
        }
        cmd.args(&c.args);
    }
    cmd.current_dir(cwd);
    cmd.env_clear();
    cmd.env("RUST_BACKTRACE", "0");
    for (k, v) in &c.env {
        cmd.env(k, v);
    }
    let trace_name = c.trace_name.clone().unwrap_or_else(|| ".fmlsim-trace".to_string());
    let trace_path = cwd.join(&trace_name);
    let _ = std::fs::remove_file(&trace_path);
    if let Some(s) = &c.shim {
        cmd.env("LD_PRELOAD", shim_path());
        cmd.env("FMLSIM_SEED", s.seed.to_string());
        if c.deleted_cwd { cmd.env("FMLSIM_TRACE", trace_path.to_string_lossy().to_string()); } else { cmd.env("FMLSIM_TRACE", &trace_name); }
        cmd.env("FMLSIM_CPU", CPU_LIMIT_S.to_string());
        if c.program.is_some() || c.deleted_cwd || (c.stdout_tty && Path::new("/usr/bin/script").exists()) {
            // a wrapper (bash) runs the binary: only the binary is the system under test; the shell sees an undisturbed world
            cmd.env("FMLSIM_ONLY", "/fml");
        }
        if !s.plan.is_empty() {
            cmd.env("FMLSIM_PLAN", &s.plan);
        }
        if let Some(clock) = &s.clock {
            cmd.env("FMLSIM_CLOCK", clock);
        }
        if s.junk > 0 {
            cmd.env("FMLSIM_JUNK", s.junk.to_string());
        }
        if let Some(b) = s.budget {
            cmd.env("FMLSIM_BUDGET", b.to_string());
        }
        if let Some(x) = s.clock_extra_s {
            cmd.env("FMLSIM_CLOCK_S", x.to_string());
        }
        if let Some(x) = s.as_limit {
            cmd.env("FMLSIM_AS", x.to_string());
        }
    }
    match &c.stdin {
        In::Null => {
            cmd.stdin(Stdio::null());
        }
        In::File(f) => match std::fs::File::open(cwd.join(f)) {
            Ok(file) => {
                cmd.stdin(Stdio::from(file));
            }
            Err(e) => {
                eprintln!("HARNESS-ERROR cannot open stdin file {}: {}", f, e);
                std::process::exit(2);
            }
        },
        In::Pipe(_) => {
            cmd.stdin(Stdio::piped());
        }
        In::FileAt(f, off) => match std::fs::File::open(cwd.join(f)) {
            Ok(mut file) => {
                use std::io::{Seek, SeekFrom};
                let _ = file.seek(SeekFrom::Start(*off));
                cmd.stdin(Stdio::from(file));
            }
            Err(e) => {
                eprintln!("HARNESS-ERROR cannot open stdin file {}: {}", f, e);
                std::process::exit(2);
            }
        },
    }
    let mut out_file: Option<PathBuf> = None;
    match &c.stdout {
        Out::Pipe => {
            cmd.stdout(Stdio::piped());
        }
        Out::File(f) => {
            let p = cwd.join(f);
            let file = std::fs::File::create(&p).expect("create stdout file");
            cmd.stdout(Stdio::from(file));
            out_file = Some(p);
        }
        Out::FileAppend(f) => {
            let p = cwd.join(f);
            let file = std::fs::OpenOptions::new().append(true).create(true).open(&p).expect("open stdout file for appending");
            cmd.stdout(Stdio::from(file));
            out_file = Some(p);
        }
        Out::DevFull => {
            let file = std::fs::OpenOptions::new().write(true).open("/dev/full").expect("/dev/full");
            cmd.stdout(Stdio::from(file));
        }
        Out::Null => {
            cmd.stdout(Stdio::null());
        }
    }
    cmd.stderr(Stdio::piped());
    // No pre_exec closure: std then uses posix_spawn (no page-table copy of the orchestrator).
    // personality is a per-thread attribute inherited by the child; the CPU/AS rlimits are applied by
    // the shim's constructor inside the child; stack/core rlimits are inherited from the orchestrator.
    unsafe {
        personality(if c.aslr { 0 } else { ADDR_NO_RANDOMIZE });
    }
    (cmd, out_file, trace_path, bin)
}

pub fn run_child(cwd: &Path, c: &Child) -> ChildResult {
    let (mut cmd, out_file, trace_path, bin) = prepare(cwd, c);
    let mut child = match cmd.spawn() {
        Ok(c) => c,
        Err(e) => {
            eprintln!("HARNESS-ERROR cannot spawn {}: {}", bin.display(), e);
            std::process::exit(2);
        }
    };
    let child_pid = child.id();
    watch(child_pid);
    let feeder = if let In::Pipe(bytes) = &c.stdin {
        let mut stdin = child.stdin.take().unwrap();
        let bytes = bytes.clone();
        Some(std::thread::spawn(move || {
            use std::io::Write;
            let _ = stdin.write_all(&bytes);
        }))
    } else {
        None
    };
    let output = match child.wait_with_output() {
        Ok(o) => o,
        Err(e) => {
            eprintln!("HARNESS-ERROR wait failed: {}", e);
            std::process::exit(2);
        }
    };
    unwatch(child_pid);
    if let Some(f) = feeder {
        let _ = f.join();
    }
    let exit = match (output.status.code(), output.status.signal()) {
        (Some(c), _) => Exit::Code(c),
        (None, Some(24)) | (None, Some(9)) => Exit::Timeout,
        (None, Some(s)) => Exit::Signal(s),
        _ => Exit::Signal(-1),
    };
    let stdout = match out_file {
        Some(p) => std::fs::read(&p).unwrap_or_default(),
        None => output.stdout,
    };
    let trace = std::fs::read_to_string(&trace_path).unwrap_or_default();
    ChildResult { exit, stdout, stderr: output.stderr, trace }
}

/// Two invocations sharing a directory, interleaved at a point the simulator decides: `first` is started with its stdin on a
/// pipe the harness holds and left until it *blocks reading that pipe* (observed in /proc/<pid>/syscall: no sleep decides
/// anything); then `second` runs to completion; then `first` is fed its input and runs to its end.
pub fn run_second_while_first_waits_for_input(cwd: &Path, first: &Child, first_input: &[u8], second: &Child) -> (ChildResult, ChildResult) {
    let mut f = first.clone();
    f.stdin = In::Pipe(Vec::new());
    let (mut cmd, out_file, trace_path, bin) = prepare(cwd, &f);
    unsafe { personality(if f.aslr { 0 } else { ADDR_NO_RANDOMIZE }); }
    let mut child = match cmd.spawn() {
        Ok(c) => c,
        Err(e) => { eprintln!("HARNESS-ERROR cannot spawn {}: {}", bin.display(), e); std::process::exit(2); }
    };
    // park: wait until the first process sits in read(2) on fd 0 (x86_64: syscall 0, first argument 0x0), or has ended
    let pid = child.id();
    let mut spins = 0u64;
    loop {
        if let Ok(Some(_)) = child.try_wait() { break; }
        let st = std::fs::read_to_string(format!("/proc/{}/syscall", pid)).unwrap_or_default();
        let mut it = st.split_whitespace();
        if it.next() == Some("0") && it.next() == Some("0x0") { break; }
        spins += 1;
        if spins > 20_000_000 { break; } // a process that neither reads its input nor ends: the second one runs anyway
        std::thread::yield_now();
    }
    watch(pid);
    // the second invocation runs in its own thread. Normally it ends within milliseconds and the first is fed afterwards; if it
    // does not end (it may be waiting for something the first one holds), the first is fed anyway after a bounded wait, so that
    // the harness can never be the cause of a deadlock between the two.
    let cwd2 = cwd.to_path_buf();
    let second2 = second.clone();
    let done = std::sync::Arc::new(std::sync::atomic::AtomicBool::new(false));
    let done2 = done.clone();
    let handle = std::thread::spawn(move || { let r = run_child(&cwd2, &second2); done2.store(true, Ordering::SeqCst); r });
    let started = std::time::Instant::now();
    while !done.load(Ordering::SeqCst) && started.elapsed().as_millis() < 3000 { std::thread::sleep(std::time::Duration::from_micros(200)); }
    {
        use std::io::Write;
        if let Some(mut stdin) = child.stdin.take() { let _ = stdin.write_all(first_input); }
    }
    let output = match child.wait_with_output() {
        Ok(o) => o,
        Err(e) => { eprintln!("HARNESS-ERROR wait failed: {}", e); std::process::exit(2); }
    };
    unwatch(pid);
    let second_result = handle.join().unwrap_or_else(|_| ChildResult { exit: Exit::Timeout, stdout: vec![], stderr: vec![], trace: String::new() });
    let exit = match (output.status.code(), output.status.signal()) {
        (Some(c), _) => Exit::Code(c),
        (None, Some(24)) | (None, Some(9)) => Exit::Timeout,
        (None, Some(s)) => Exit::Signal(s),
        _ => Exit::Signal(-1),
    };
    let stdout = match out_file { Some(p) => std::fs::read(&p).unwrap_or_default(), None => output.stdout };
    let trace = std::fs::read_to_string(&trace_path).unwrap_or_default();
    (ChildResult { exit, stdout, stderr: output.stderr, trace }, second_result)
}



/// Two live invocations under a cooperative scheduler the harness owns. Both children announce themselves before each of their
/// first calls of the listed kinds (shim FMLSIM_SCHED_*) and wait; whenever neither is running, the harness lets one proceed —
/// which one is read from `choices` (data of the case, drawn from the seed and stored in the replay). So the interleaving of
/// "A opens its output, B opens its output, A writes, B writes, ..." is decided here, not by the kernel. Returns both results
/// and the schedule that was actually taken.
pub fn run_scheduled_pair(cwd: &Path, a: &Child, b: &Child, kinds: &str, choices: &[u8]) -> (ChildResult, ChildResult, String) {
    let sched = cwd.join(".sched");
    let _ = std::fs::remove_dir_all(&sched);
    std::fs::create_dir_all(&sched).unwrap();
    let sched_abs = std::fs::canonicalize(&sched).unwrap_or(sched.clone());
    let mk = |c: &Child, id: &str| {
        let mut c = c.clone();
        c.trace_name = Some(format!(".fmlsim-trace-{}", id));
        c.env.push(("FMLSIM_SCHED_DIR".into(), sched_abs.to_string_lossy().to_string()));
        c.env.push(("FMLSIM_SCHED_ID".into(), id.to_string()));
        c.env.push(("FMLSIM_SCHED_AT".into(), kinds.to_string()));
        c
    };
    let (ca, cb) = (mk(a, "A"), mk(b, "B"));
    let done = [std::sync::Arc::new(std::sync::atomic::AtomicBool::new(false)), std::sync::Arc::new(std::sync::atomic::AtomicBool::new(false))];
    let mut handles = Vec::new();
    for (i, c) in vec![ca, cb].into_iter().enumerate() {
        let cwd2 = cwd.to_path_buf();
        let d = done[i].clone();
        handles.push(std::thread::spawn(move || { let r = run_child(&cwd2, &c); d.store(true, Ordering::SeqCst); r }));
    }
    let ids = ["A", "B"];
    let mut next = [0usize, 0usize]; // next announce number expected from each
    let mut log = String::new();
    let mut turn = 0usize;
    let mut idle_since: Option<std::time::Instant> = None;
    loop {
        let fin = [done[0].load(Ordering::SeqCst), done[1].load(Ordering::SeqCst)];
        if fin[0] && fin[1] { break; }
        let parked: Vec<bool> = (0..2).map(|i| !fin[i] && sched.join(format!("{}.{}.at", ids[i], next[i])).exists()).collect();
        let running: Vec<bool> = (0..2).map(|i| !fin[i] && !parked[i]).collect();
        let release = |i: usize, next: &mut [usize; 2], log: &mut String| {
            let kind = std::fs::read_to_string(sched.join(format!("{}.{}.at", ids[i], next[i]))).unwrap_or_default();
            let _ = std::fs::write(sched.join(format!("{}.{}.go", ids[i], next[i])), b"go");
            log.push_str(&format!("{}:{} ", ids[i], kind));
            next[i] += 1;
        };
        if !running[0] && !running[1] {
            idle_since = None;
            let pick = match (parked[0], parked[1]) {
                (true, true) => { let c = choices.get(turn % choices.len().max(1)).copied().unwrap_or(0) as usize & 1; turn += 1; c }
                (true, false) => 0,
                (false, true) => 1,
                _ => { std::thread::yield_now(); continue; }
            };
            release(pick, &mut next, &mut log);
        } else {
            // someone is running (or blocked on something the parked peer holds): give it time; if it neither parks nor ends
            // within two seconds while the other one is parked, let the parked one go too — the harness must not cause a deadlock
            let t = *idle_since.get_or_insert_with(std::time::Instant::now);
            if t.elapsed().as_millis() > 2000 {
                for i in 0..2 { if parked[i] { release(i, &mut next, &mut log); } }
                idle_since = None;
            }
            std::thread::sleep(std::time::Duration::from_micros(100));
        }
    }
    let mut rs: Vec<ChildResult> = handles.into_iter().map(|h| h.join().unwrap_or_else(|_| ChildResult { exit: Exit::Timeout, stdout: vec![], stderr: vec![], trace: String::new() })).collect();
    let _ = std::fs::remove_dir_all(&sched);
    let rb = rs.pop().unwrap();
    let ra = rs.pop().unwrap();
    (ra, rb, log.trim_end().to_string())
}

/// A live pipeline: every stage is spawned before any is waited for, stage k's stdout is stage k+1's stdin through a kernel
/// pipe, the last stage's stdout is captured. All stages are alive at once; the kernel decides who runs. (Each stage keeps
/// its own shim plan and trace.) An uncontrolled witness, like the ASLR-on tuples: on a correct system the outcome is unique.
pub fn run_live_pipeline(cwd: &Path, stages: &[Child]) -> Vec<ChildResult> {
    let mut children: Vec<(std::process::Child, PathBuf)> = Vec::new();
    let mut prev_out: Option<std::process::ChildStdout> = None;
    for (i, st) in stages.iter().enumerate() {
        let mut c = st.clone();
        c.trace_name = Some(format!(".fmlsim-trace-{}", i));
        if i > 0 { c.stdin = In::Null; }
        c.stdout = Out::Pipe;
        let (mut cmd, _out_file, trace_path, bin) = prepare(cwd, &c);
        if let Some(po) = prev_out.take() { cmd.stdin(Stdio::from(po)); }
        unsafe { personality(if c.aslr { 0 } else { ADDR_NO_RANDOMIZE }); }
        let mut child = match cmd.spawn() {
            Ok(ch) => ch,
            Err(e) => { eprintln!("HARNESS-ERROR cannot spawn {}: {}", bin.display(), e); std::process::exit(2); }
        };
        if i + 1 < stages.len() { prev_out = child.stdout.take(); }
        watch(child.id());
        children.push((child, trace_path));
    }
    // wait from the last stage backwards: its output is the only one the harness has to drain
    let mut results: Vec<Option<ChildResult>> = (0..children.len()).map(|_| None).collect();
    for (i, (child, trace_path)) in children.into_iter().enumerate().rev() {
        let cpid = child.id();
        let output = match child.wait_with_output() {
            Ok(o) => o,
            Err(e) => { eprintln!("HARNESS-ERROR wait failed: {}", e); std::process::exit(2); }
        };
        let exit = match (output.status.code(), output.status.signal()) {
            (Some(c), _) => Exit::Code(c),
            (None, Some(24)) | (None, Some(9)) => Exit::Timeout,
            (None, Some(s)) => Exit::Signal(s),
            _ => Exit::Signal(-1),
        };
        unwatch(cpid);
        let trace = std::fs::read_to_string(&trace_path).unwrap_or_default();
        results[i] = Some(ChildResult { exit, stdout: output.stdout, stderr: output.stderr, trace });
    }
    results.into_iter().map(|r| r.unwrap()).collect()
}

/// setup-time probe: the shim must be effective for this binary (dynamic linking, symbol interposition)
pub fn shim_effective() -> Result<(), String> {
    let dir = scratch_dir();
    std::fs::write(dir.join("p.fml"), "print(\"probe\\n\")\n").map_err(|e| e.to_string())?;
    let mut c = Child::new(Profile::Release, &["run", "p.fml"]);
    c.shim = Some(ShimCfg { seed: 1, plan: "o:*:l:2".into(), clock: None, junk: 0, budget: None, ..Default::default() });
    let r = run_child(&dir, &c);
    let _ = std::fs::remove_dir_all(&dir);
    if r.exit != Exit::Code(0) || r.stdout != b"probe\n" {
        return Err(format!("probe run failed: {} stdout={:?} stderr={}", r.exit.show(), String::from_utf8_lossy(&r.stdout), String::from_utf8_lossy(&r.stderr)));
    }
    // independent of how FML happens to chunk its output: entropy was served by the shim, at least one write on fd 1 was
    // seen, and none of them moved more than the 2 bytes the plan allows
    let served_entropy = r.trace.lines().any(|l| l.starts_with("G "));
    let writes: Vec<i64> = r.trace.lines().filter(|l| l.starts_with("W o ")).filter_map(|l| l.split("-> ").nth(1).and_then(|x| x.split_whitespace().next()).and_then(|x| x.parse().ok())).collect();
    if !served_entropy || writes.is_empty() || writes.iter().any(|n| *n > 2) {
        return Err(format!("shim not effective; trace was: {:?}", r.trace));
    }
    Ok(())
}
