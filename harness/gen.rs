//! W1 — seeded, kind-directed generator of FML source programs (DESIGN §4).
//!
//! This is *workload*, not the technique: it supplies programs whose serialisation, staging,
//! execution and failure the simulators then put under faults and varied environments. Programs
//! are valid and terminating by construction as far as the generator can tell; whether one really
//! succeeds is always established by its own fault-free run, never assumed.

use super::util::Rng;

#[derive(Clone, Copy, Debug, PartialEq, Eq)]
pub enum StrRegime {
    Plain,
    Unicode,
    Control,
    Meta,
    Long,
    Mixed,
}

#[derive(Clone, Debug)]
pub struct GenCfg {
    pub stmts: usize,
    pub depth: u32,
    pub strings: StrRegime,
    pub boundary_ints: bool,
    pub hostile_idents: bool,
    pub f_functions: bool,
    pub f_objects: bool,
    pub f_arrays: bool,
    pub f_loops: bool,
    pub f_blocks: bool,
    pub f_conditionals: bool,
    /// arithmetic restricted so that no i32 overflow can occur (small literals, no `*` chains)
    pub tame_arith: bool,
    /// long strings: maximum length in bytes (Long regime)
    pub long_max: usize,
}

impl GenCfg {
    /// Swarm configuration: every knob drawn per case.
    pub fn swarm(rng: &mut Rng) -> GenCfg {
        let strings = match rng.below(12) {
            0..=3 => StrRegime::Plain,
            4..=5 => StrRegime::Unicode,
            6 => StrRegime::Control,
            7..=8 => StrRegime::Meta,
            9 => StrRegime::Long,
            _ => StrRegime::Mixed,
        };
        GenCfg {
            stmts: { let cap = if rng.below(4) == 0 { 40 } else { 14 }; 1 + rng.usize_below(cap) },
            depth: 1 + rng.below(4) as u32,
            strings,
            boundary_ints: rng.below(3) == 0,
            hostile_idents: rng.below(3) == 0,
            f_functions: rng.below(4) != 0,
            f_objects: rng.below(4) != 0,
            f_arrays: rng.below(4) != 0,
            f_loops: rng.below(4) != 0,
            f_blocks: rng.below(4) != 0,
            f_conditionals: rng.below(5) != 0,
            tame_arith: rng.below(3) != 0,
            long_max: 70 * 1024,
        }
    }
    pub fn small(rng: &mut Rng) -> GenCfg {
        let mut c = GenCfg::swarm(rng);
        c.stmts = 1 + rng.usize_below(8);
        c.depth = 1 + rng.below(3) as u32;
        if c.strings == StrRegime::Long {
            c.strings = StrRegime::Mixed;
        }
        c
    }
}

#[derive(Clone, Debug, PartialEq)]
pub enum Kind {
    Int,
    Bool,
    Null,
    Arr(usize, Box<Kind>),
    Obj(usize),
}

#[derive(Clone, Debug)]
struct Var {
    name: String,
    kind: Kind,
}

#[derive(Clone, Debug)]
struct Func {
    name: String,
    params: Vec<Kind>,
    ret: Kind,
    allocs: Option<u64>,
}

#[derive(Clone, Debug)]
struct Method {
    name: String,
    nparams: usize,
    ret: Kind,
    allocs: Option<u64>,
    is_operator: bool,
}

#[derive(Clone, Debug)]
enum Parent {
    Null,
    Int,
    Bool,
    Arr(usize, Box<Kind>),
    Obj(usize),
}

#[derive(Clone, Debug)]
struct Class {
    fields: Vec<Var>,
    methods: Vec<Method>,
    parent: Parent,
}

#[derive(Clone, Debug)]
pub struct Stmt {
    pub text: String,
    /// number of heap allocations executing this statement performs, when statically known
    pub allocs: Option<u64>,
    /// true when later statements may depend on this one (definitions)
    pub is_def: bool,
}

#[derive(Clone, Debug)]
pub struct GenProgram {
    pub stmts: Vec<Stmt>,
}

impl GenProgram {
    pub fn source(&self) -> String {
        let mut s = String::new();
        for (i, st) in self.stmts.iter().enumerate() {
            if i > 0 {
                s.push_str(";\n");
            }
            s.push_str(&st.text);
        }
        s.push('\n');
        s
    }
    pub fn allocs(&self) -> Option<u64> {
        let mut total = 0u64;
        for s in &self.stmts {
            total += s.allocs?;
        }
        Some(total)
    }
}

fn add(a: Option<u64>, b: Option<u64>) -> Option<u64> {
    Some(a? + b?)
}
fn mul(a: Option<u64>, k: u64) -> Option<u64> {
    Some(a? * k)
}

type E = (String, Option<u64>);

const HOSTILE_IDENTS: &[&str] = &[
    "y", "n", "yes", "no", "on", "off", "True", "False", "NULL", "Null", "TRUE", "_", "__", "e1", "nan", "NaN",
    "inf", "Infinity", "x0", "_1", "O", "l", "I", "nil", "t", "T", "Y", "N", "None", "undefined", "int", "str",
    "o0x1f", "_0", "A", "Z", "quote", "lambda", "define", "car", "cdr", "Top", "Block", "Integer", "Boolean",
    "Variable", "name", "value", "Identifier", "Print", "format", "arguments", "members", "parameters", "Extends",
    // the vocabulary of the serialized AST itself: node names, operator variant names, field names — an in-band encoding of
    // anything in an interchange format would collide with a user identifier spelled like it
    "Multiplication", "Division", "Module", "Addition", "Subtraction", "Inequality", "Equality", "Less", "LessEqual", "Greater", "GreaterEqual",
    "Disjunction", "Conjunction", "Null", "Array", "Object", "AccessVariable", "AccessField", "AccessArray", "AssignVariable", "AssignField",
    "AssignArray", "Function", "CallFunction", "CallMethod", "Loop", "Conditional", "size", "field", "index", "body", "condition", "consequent",
    "alternative", "Operator", "AST", "Some", "Ok", "Err", "Box", "Vec", "String", "unit", "add", "sub", "mul", "div", "eq", "neq", "get", "set",
];

const BOUNDARY: &[i64] = &[
    0, 1, -1, 2, -2, 7, 10, 255, 256, 65535, 65536, 2147483647, -2147483648, 2147483646, -2147483647, 46341,
    46340, -46341, 1073741824, -1073741824,
];

struct Ctx<'r> {
    rng: &'r mut Rng,
    cfg: GenCfg,
    globals: Vec<Var>,
    funcs: Vec<Func>,
    classes: Vec<Class>,
    scopes: Vec<Vec<Var>>,
    in_function: bool,
    counter: usize,
    used_hostile: Vec<bool>,
    /// a global int counter that compound array initialisers bump, if defined
    tick: Option<String>,
    /// live loop counters: never assigned or shadowed by generated statements
    protected: Vec<String>,
}

impl<'r> Ctx<'r> {
    fn fresh(&mut self, prefix: &str) -> String {
        self.counter += 1;
        if self.cfg.hostile_idents && self.rng.below(3) == 0 {
            let i = self.rng.usize_below(HOSTILE_IDENTS.len());
            // a name is handed out once per program — by value, since the pool may list a spelling twice
            let name = HOSTILE_IDENTS[i];
            let taken = HOSTILE_IDENTS.iter().enumerate().any(|(j, n)| *n == name && self.used_hostile[j]);
            if !taken {
                self.used_hostile[i] = true;
                return name.to_string();
            }
        }
        format!("{}{}", prefix, self.counter)
    }

    fn visible(&self) -> Vec<Var> {
        // innermost scope first; shadowed names are dropped
        let mut out: Vec<Var> = Vec::new();
        for scope in self.scopes.iter().rev() {
            for v in scope.iter().rev() {
                if !out.iter().any(|o| o.name == v.name) {
                    out.push(v.clone());
                }
            }
        }
        for v in self.globals.iter().rev() {
            if !out.iter().any(|o| o.name == v.name) {
                out.push(v.clone());
            }
        }
        out
    }

    fn vars_of(&self, pred: &dyn Fn(&Kind) -> bool) -> Vec<Var> {
        self.visible().into_iter().filter(|v| pred(&v.kind)).collect()
    }

    fn int_lit(&mut self) -> String {
        let v: i64 = if self.cfg.boundary_ints && !self.cfg.tame_arith && self.rng.below(3) == 0 {
            *self.rng.pick(BOUNDARY)
        } else if self.cfg.tame_arith {
            self.rng.range(-9, 20)
        } else {
            match self.rng.below(6) {
                0 => self.rng.range(-100000, 100000),
                1 => self.rng.range(-2147483648, 2147483647),
                _ => self.rng.range(-9, 50),
            }
        };
        if v < 0 {
            format!("({})", v)
        } else {
            format!("{}", v)
        }
    }

    fn divisor(&mut self) -> String {
        let ds: [i64; 8] = [1, 2, 3, 5, 7, -2, -3, 10];
        let d = *self.rng.pick(&ds);
        if d < 0 { format!("({})", d) } else { format!("{}", d) }
    }

    // ---------------------------------------------------------------------------------------
    // expressions

    fn expr(&mut self, kind: &Kind, depth: u32) -> E {
        match kind {
            Kind::Int => self.int_expr(depth),
            Kind::Bool => self.bool_expr(depth),
            Kind::Null => self.null_expr(depth),
            Kind::Arr(len, elem) => self.arr_expr(*len, elem, depth),
            Kind::Obj(c) => self.obj_expr(*c, depth),
        }
    }

    fn int_expr(&mut self, depth: u32) -> E {
        if depth == 0 || self.rng.below(5) == 0 {
            let vars = self.vars_of(&|k| *k == Kind::Int);
            if !vars.is_empty() && self.rng.below(3) != 0 {
                return (self.rng.pick(&vars).name.clone(), Some(0));
            }
            return (self.int_lit(), Some(0));
        }
        let d = depth - 1;
        match self.rng.below(14) {
            0..=2 => {
                let (a, x) = self.int_expr(d);
                let (b, y) = self.int_expr(d);
                let op = if self.cfg.tame_arith { *self.rng.pick(&["+", "-"]) } else { *self.rng.pick(&["+", "-", "*"]) };
                (format!("({} {} {})", a, op, b), add(x, y))
            }
            3 => {
                let (a, x) = self.int_expr(d);
                let op = *self.rng.pick(&["/", "%"]);
                let dv = self.divisor();
                (format!("({} {} {})", a, op, dv), x)
            }
            4 if self.cfg.f_conditionals => {
                let (c, x) = self.bool_expr(d);
                let (a, y) = self.int_expr(d);
                let (b, z) = self.int_expr(d);
                let branches = if y == z { y } else { None };
                (format!("(if {} then {} else {})", c, a, b), add(x, branches))
            }
            5 if self.cfg.f_functions => {
                let fs: Vec<Func> = self.funcs.iter().filter(|f| f.ret == Kind::Int).cloned().collect();
                if fs.is_empty() {
                    return self.int_expr(0);
                }
                let f = self.rng.pick(&fs).clone();
                self.call_function(&f, d)
            }
            6 if self.cfg.f_arrays => {
                let arrs = self.vars_of(&|k| matches!(k, Kind::Arr(n, e) if *n > 0 && **e == Kind::Int));
                if arrs.is_empty() {
                    return self.int_expr(0);
                }
                let a = self.rng.pick(&arrs).clone();
                let n = if let Kind::Arr(n, _) = a.kind { n } else { 1 };
                let i = self.rng.usize_below(n);
                (format!("{}[{}]", a.name, i), Some(0))
            }
            7 | 8 if self.cfg.f_objects => {
                let objs = self.vars_of(&|k| matches!(k, Kind::Obj(_)));
                if objs.is_empty() {
                    return self.int_expr(0);
                }
                let o = self.rng.pick(&objs).clone();
                let c = if let Kind::Obj(c) = o.kind { c } else { 0 };
                self.obj_member_expr(&o.name, c, &Kind::Int, d)
            }
            9 if self.cfg.f_blocks => {
                // begin let l = e; l op e end
                let name = self.fresh("l");
                let (a, x) = self.int_expr(d);
                self.scopes.push(vec![Var { name: name.clone(), kind: Kind::Int }]);
                let (b, y) = self.int_expr(d);
                self.scopes.pop();
                (format!("begin let {} = {}; {} end", name, a, b), add(x, y))
            }
            10 => {
                // assignment as expression: (v <- e) yields e
                let vars: Vec<Var> = self.vars_of(&|k| *k == Kind::Int).into_iter().filter(|v| !self.protected.contains(&v.name)).collect();
                if vars.is_empty() {
                    return self.int_expr(0);
                }
                let v = self.rng.pick(&vars).name.clone();
                let (a, x) = self.int_expr(d);
                (format!("({} <- {})", v, a), x)
            }
            _ => self.int_expr(0),
        }
    }

    fn bool_expr(&mut self, depth: u32) -> E {
        if depth == 0 || self.rng.below(5) == 0 {
            let vars = self.vars_of(&|k| *k == Kind::Bool);
            if !vars.is_empty() && self.rng.coin() {
                return (self.rng.pick(&vars).name.clone(), Some(0));
            }
            return ((if self.rng.coin() { "true" } else { "false" }).to_string(), Some(0));
        }
        let d = depth - 1;
        match self.rng.below(8) {
            0..=3 => {
                let (a, x) = self.int_expr(d);
                let (b, y) = self.int_expr(d);
                let op = *self.rng.pick(&["<", "<=", ">", ">=", "==", "!="]);
                (format!("({} {} {})", a, op, b), add(x, y))
            }
            4 | 5 => {
                let (a, x) = self.bool_expr(d);
                let (b, y) = self.bool_expr(d);
                let op = *self.rng.pick(&["&", "|", "==", "!="]);
                (format!("({} {} {})", a, op, b), add(x, y))
            }
            6 => {
                // cross-kind equality is defined
                let (a, x) = self.int_expr(d);
                let op = *self.rng.pick(&["==", "!="]);
                let other = *self.rng.pick(&["null", "true", "false"]);
                if self.rng.coin() {
                    (format!("({} {} {})", a, op, other), x)
                } else {
                    (format!("({} {} {})", other, op, a), x)
                }
            }
            _ => self.bool_expr(0),
        }
    }

    fn null_expr(&mut self, depth: u32) -> E {
        if depth == 0 || self.rng.coin() {
            return ("null".to_string(), Some(0));
        }
        let (p, x) = self.print_expr(depth - 1);
        (format!("({})", p), x)
    }

    fn arr_expr(&mut self, len: usize, elem: &Kind, depth: u32) -> E {
        let want = Kind::Arr(len, Box::new(elem.clone()));
        let vars = self.vars_of(&|k| *k == want);
        if !vars.is_empty() && (depth == 0 || self.rng.below(3) == 0) {
            return (self.rng.pick(&vars).name.clone(), Some(0));
        }
        let d = depth.saturating_sub(1);
        // simple initialiser: evaluated once; compound: once per element
        if *elem == Kind::Int && self.rng.coin() {
            let (init, _) = self.int_expr(0);
            return (format!("array({}, {})", len, init), Some(1));
        }
        match elem {
            Kind::Int => {
                if let (Some(t), true) = (self.tick.clone(), self.rng.coin() && !self.in_function) {
                    (format!("array({}, begin {} <- {} + 1; {} end)", len, t, t, t), Some(1))
                } else {
                    let (a, x) = self.int_expr(d.min(1));
                    // force a compound initialiser
                    (format!("array({}, ({} + 0))", len, a), add(Some(1), mul(x, len as u64)))
                }
            }
            Kind::Obj(c) => {
                let (o, x) = self.obj_new(*c, d.min(1));
                (format!("array({}, {})", len, o), add(Some(1), mul(x, len as u64)))
            }
            Kind::Bool => {
                let (a, x) = self.bool_expr(d.min(1));
                (format!("array({}, ({} & true))", len, a), add(Some(1), mul(x, len as u64)))
            }
            _ => (format!("array({}, null)", len), Some(1)),
        }
    }

    fn obj_expr(&mut self, class: usize, depth: u32) -> E {
        let vars = self.vars_of(&|k| *k == Kind::Obj(class));
        if !vars.is_empty() && (depth == 0 || self.rng.below(3) != 0) {
            return (self.rng.pick(&vars).name.clone(), Some(0));
        }
        self.obj_new(class, depth.saturating_sub(1))
    }

    /// A fresh object structurally compatible with `class` (same field names/kinds and methods):
    /// re-instantiates the class by a function if one exists, else falls back to a variable.
    fn obj_new(&mut self, class: usize, _depth: u32) -> E {
        let makers: Vec<Func> = self.funcs.iter().filter(|f| f.ret == Kind::Obj(class) && f.params.is_empty()).cloned().collect();
        if let Some(f) = makers.first() {
            return (format!("{}()", f.name), f.allocs);
        }
        let vars = self.vars_of(&|k| *k == Kind::Obj(class));
        if !vars.is_empty() {
            return (self.rng.pick(&vars).name.clone(), Some(0));
        }
        // cannot happen for classes the generator hands out, but stay valid
        ("object begin end".to_string(), Some(1))
    }

    fn call_function(&mut self, f: &Func, depth: u32) -> E {
        let mut args = Vec::new();
        let mut allocs = f.allocs;
        for p in &f.params {
            let (a, x) = self.expr(p, depth.min(1));
            allocs = add(allocs, x);
            args.push(a);
        }
        (format!("{}({})", f.name, args.join(", ")), allocs)
    }

    /// An expression of kind `want` that goes through object `name` of class `c`; falls back to a
    /// plain expression of that kind when the class offers nothing suitable.
    fn obj_member_expr(&mut self, name: &str, c: usize, want: &Kind, depth: u32) -> E {
        let class = self.classes[c].clone();
        let fields: Vec<&Var> = class.fields.iter().filter(|f| f.kind == *want).collect();
        let mut methods: Vec<Method> = Vec::new();
        // own methods, then inherited through object parents
        let mut cur = Some(c);
        let mut hops = 0;
        while let Some(ci) = cur {
            for m in &self.classes[ci].methods {
                if m.ret == *want && !methods.iter().any(|x| x.name == m.name) {
                    // an inherited method of the same name is shadowed
                    methods.push(m.clone());
                }
            }
            cur = match self.classes[ci].parent { Parent::Obj(p) => Some(p), _ => None };
            hops += 1;
            if hops > 16 { break; }
        }
        let choice = self.rng.below(3);
        if choice == 0 && !fields.is_empty() {
            let f = self.rng.pick(&fields);
            return (format!("{}.{}", name, f.name), Some(0));
        }
        if !methods.is_empty() {
            // a method is only callable by that name if the nearest definition is the one we think
            let m = self.rng.pick(&methods).clone();
            if self.nearest_method(c, &m.name).map(|n| n.nparams == m.nparams && n.ret == m.ret).unwrap_or(false) {
                let mut args = Vec::new();
                let mut allocs = self.nearest_method(c, &m.name).unwrap().allocs;
                for _ in 0..m.nparams {
                    let (a, x) = self.int_expr(depth.min(1));
                    allocs = add(allocs, x);
                    args.push(a);
                }
                if m.is_operator && m.nparams == 1 {
                    return (format!("({} {} {})", name, m.name, args[0]), allocs);
                }
                return (format!("{}.{}({})", name, m.name, args.join(", ")), allocs);
            }
        }
        if !fields.is_empty() {
            let f = self.rng.pick(&fields);
            return (format!("{}.{}", name, f.name), Some(0));
        }
        // built-in methods of a primitive at the end of the parent chain
        if *want == Kind::Int {
            if let Some(Parent::Int) = self.chain_end(c) {
                if self.nearest_method(c, "+").is_none() {
                    let (a, x) = self.int_expr(0);
                    return (format!("({} + {})", name, a), x);
                }
            }
        }
        self.expr(want, 0)
    }

    fn nearest_method(&self, c: usize, name: &str) -> Option<Method> {
        let mut cur = Some(c);
        let mut hops = 0;
        while let Some(ci) = cur {
            if let Some(m) = self.classes[ci].methods.iter().find(|m| m.name == name) {
                return Some(m.clone());
            }
            cur = match self.classes[ci].parent { Parent::Obj(p) => Some(p), _ => None };
            hops += 1;
            if hops > 16 { break; }
        }
        None
    }

    fn chain_end(&self, c: usize) -> Option<Parent> {
        let mut cur = c;
        for _ in 0..16 {
            match &self.classes[cur].parent {
                Parent::Obj(p) => cur = *p,
                other => return Some(other.clone()),
            }
        }
        None
    }

    // ---------------------------------------------------------------------------------------
    // print

    fn print_expr(&mut self, depth: u32) -> E {
        let nargs = match self.rng.below(6) { 0 => 0, 1 | 2 => 1, 3 | 4 => 2, _ => 3 };
        let mut args = Vec::new();
        let mut allocs = Some(0);
        for _ in 0..nargs {
            let vis = self.visible();
            let (a, x) = if !vis.is_empty() && self.rng.below(3) == 0 {
                (self.rng.pick(&vis).name.clone(), Some(0))
            } else {
                match self.rng.below(4) {
                    0 => self.bool_expr(depth.min(2)),
                    1 => ("null".to_string(), Some(0)),
                    _ => self.int_expr(depth.min(2)),
                }
            };
            allocs = add(allocs, x);
            args.push(a);
        }
        let regime = self.cfg.strings;
        let long_max = self.cfg.long_max;
        let fmt = gen_format(self.rng, regime, nargs, long_max);
        if args.is_empty() {
            (format!("print(\"{}\")", fmt), allocs)
        } else {
            (format!("print(\"{}\", {})", fmt, args.join(", ")), allocs)
        }
    }

    // ---------------------------------------------------------------------------------------
    // statements usable inside blocks, loop bodies and function bodies (no definitions of
    // functions; `let` only when `allow_let`)

    fn inner_stmt(&mut self, depth: u32, allow_let: bool) -> E {
        match self.rng.below(10) {
            0..=2 => self.print_expr(depth),
            3 | 4 => {
                let vars: Vec<Var> = self.vars_of(&|k| matches!(k, Kind::Int | Kind::Bool)).into_iter().filter(|v| !self.protected.contains(&v.name)).collect();
                if vars.is_empty() {
                    return self.print_expr(depth);
                }
                let v = self.rng.pick(&vars).clone();
                let (e, x) = self.expr(&v.kind, depth);
                (format!("{} <- {}", v.name, e), x)
            }
            5 if allow_let => {
                // shadowing: re-declare a name that is visible from an enclosing scope of this frame (a local of an
                // outer block, a parameter) or a global — but never a live loop counter, `this`, or a name already
                // declared in this very scope
                let mut candidates: Vec<String> = Vec::new();
                if self.scopes.len() >= 2 {
                    for scope in &self.scopes[..self.scopes.len() - 1] {
                        for v in scope { candidates.push(v.name.clone()); }
                    }
                }
                if !self.in_function {
                    for v in &self.globals { candidates.push(v.name.clone()); }
                }
                let here: Vec<String> = self.scopes.last().map(|s| s.iter().map(|v| v.name.clone()).collect()).unwrap_or_default();
                candidates.retain(|n| n != "this" && !self.protected.contains(n) && !here.contains(n));
                let name = if !candidates.is_empty() && !self.scopes.is_empty() && self.rng.below(3) == 0 {
                    self.rng.pick(&candidates).clone()
                } else {
                    self.fresh("l")
                };
                let kind = if self.rng.below(4) == 0 { Kind::Bool } else { Kind::Int };
                let (e, x) = self.expr(&kind, depth);
                if let Some(scope) = self.scopes.last_mut() {
                    scope.push(Var { name: name.clone(), kind });
                }
                (format!("let {} = {}", name, e), x)
            }
            6 if self.cfg.f_arrays => {
                let arrs = self.vars_of(&|k| matches!(k, Kind::Arr(n, e) if *n > 0 && **e == Kind::Int));
                if arrs.is_empty() {
                    return self.print_expr(depth);
                }
                let a = self.rng.pick(&arrs).clone();
                let n = if let Kind::Arr(n, _) = a.kind { n } else { 1 };
                let i = self.rng.usize_below(n);
                let (e, x) = self.int_expr(depth);
                (format!("{}[{}] <- {}", a.name, i, e), x)
            }
            7 if self.cfg.f_objects => {
                let objs = self.vars_of(&|k| matches!(k, Kind::Obj(_)));
                if objs.is_empty() {
                    return self.print_expr(depth);
                }
                let o = self.rng.pick(&objs).clone();
                let c = if let Kind::Obj(c) = o.kind { c } else { 0 };
                let fields: Vec<Var> = self.classes[c].fields.iter().filter(|f| matches!(f.kind, Kind::Int | Kind::Bool)).cloned().collect();
                if fields.is_empty() {
                    return self.print_expr(depth);
                }
                let f = self.rng.pick(&fields).clone();
                let (e, x) = self.expr(&f.kind, depth);
                (format!("{}.{} <- {}", o.name, f.name, e), x)
            }
            9 if self.cfg.f_blocks && depth > 0 => {
                // a nested block: its own scope inside the enclosing one
                let n = 1 + self.rng.usize_below(3);
                self.block_body(n, depth - 1)
            }
            8 if self.cfg.f_conditionals => {
                let (c, x) = self.bool_expr(depth);
                let (a, y) = self.print_expr(depth);
                if self.rng.coin() {
                    let (b, z) = self.print_expr(depth);
                    (format!("if {} then {} else {}", c, a, b), add(x, if y == z { y } else { None }))
                } else {
                    (format!("if {} then {}", c, a), add(x, if y == Some(0) { y } else { None }))
                }
            }
            _ => {
                let (e, x) = self.int_expr(depth);
                (e, x)
            }
        }
    }

    /// Nested blocks that re-declare the same few names at every level and read/assign them while all
    /// levels are open — the shape in which a compiler keyed by (scope, name) must pick the innermost.
    fn shadow_stack(&mut self, levels: u32) -> E {
        let names: Vec<String> = (0..(2 + self.rng.usize_below(2))).map(|_| self.fresh("s")).collect();
        self.shadow_level(&names, levels, true)
    }

    fn shadow_level(&mut self, names: &[String], levels: u32, outermost: bool) -> E {
        self.scopes.push(Vec::new());
        let mut parts: Vec<String> = Vec::new();
        let mut allocs = Some(0);
        for n in names {
            if outermost || self.rng.below(3) != 0 {
                let (e, x) = self.int_expr(1);
                allocs = add(allocs, x);
                parts.push(format!("let {} = {}", n, e));
                self.scopes.last_mut().unwrap().push(Var { name: n.clone(), kind: Kind::Int });
            }
        }
        let fmt = format!("{}\\n", names.iter().map(|_| "~").collect::<Vec<_>>().join(" "));
        parts.push(format!("print(\"{}\", {})", fmt, names.join(", ")));
        let target = self.rng.pick(names).clone();
        parts.push(format!("{} <- ({} + 1)", target, target));
        if levels > 1 {
            let (inner, x) = self.shadow_level(names, levels - 1, false);
            allocs = add(allocs, x);
            parts.push(inner);
        }
        parts.push(format!("print(\"{}\", {})", fmt, names.join(", ")));
        self.scopes.pop();
        (format!("begin\n  {}\nend", parts.join(";\n  ")), allocs)
    }

    fn block_body(&mut self, n: usize, depth: u32) -> E {
        self.scopes.push(Vec::new());
        let mut parts = Vec::new();
        let mut allocs = Some(0);
        for _ in 0..n.max(1) {
            let (s, x) = self.inner_stmt(depth, true);
            allocs = add(allocs, x);
            parts.push(s);
        }
        self.scopes.pop();
        (format!("begin\n  {}\nend", parts.join(";\n  ")), allocs)
    }

    // ---------------------------------------------------------------------------------------
    // top-level statements

    fn top_stmt(&mut self, out: &mut Vec<Stmt>) {
        let depth = self.cfg.depth;
        let roll = self.rng.below(20);
        match roll {
            0..=2 => {
                let kind = match self.rng.below(5) { 0 => Kind::Bool, 1 => Kind::Null, _ => Kind::Int };
                let (e, x) = self.expr(&kind, depth);
                let name = self.fresh("g");
                out.push(Stmt { text: format!("let {} = {}", name, e), allocs: x, is_def: true });
                self.globals.push(Var { name, kind });
            }
            3 | 4 => {
                let (p, x) = self.print_expr(depth);
                out.push(Stmt { text: p, allocs: x, is_def: false });
            }
            5 => {
                let vars: Vec<Var> = self.globals.iter().filter(|v| matches!(v.kind, Kind::Int | Kind::Bool)).cloned().collect();
                if vars.is_empty() {
                    return self.top_stmt_print(out);
                }
                let v = self.rng.pick(&vars).clone();
                let (e, x) = self.expr(&v.kind, depth);
                out.push(Stmt { text: format!("{} <- {}", v.name, e), allocs: x, is_def: false });
            }
            6 | 7 if self.cfg.f_functions => self.top_function(out),
            8 | 9 if self.cfg.f_objects => self.top_object(out),
            10 | 11 if self.cfg.f_arrays => self.top_array(out),
            12 | 13 if self.cfg.f_loops => self.top_loop(out),
            14 if self.cfg.f_blocks => {
                let n = 1 + self.rng.usize_below(4);
                let (b, x) = self.block_body(n, depth);
                out.push(Stmt { text: b, allocs: x, is_def: false });
            }
            15 if self.cfg.f_conditionals => {
                let (c, x) = self.bool_expr(depth);
                let (a, y) = if self.cfg.f_blocks && self.rng.coin() { self.block_body(2, depth) } else { self.print_expr(depth) };
                let (b, z) = if self.cfg.f_blocks && self.rng.coin() { self.block_body(2, depth) } else { self.print_expr(depth) };
                out.push(Stmt { text: format!("if {} then {} else {}", c, a, b), allocs: add(x, if y == z { y } else { None }), is_def: false });
            }
            16 if self.cfg.f_objects || self.cfg.f_arrays => {
                // aliasing: a second name for an existing array/object
                let refs: Vec<Var> = self.globals.iter().filter(|v| matches!(v.kind, Kind::Arr(..) | Kind::Obj(_))).cloned().collect();
                if refs.is_empty() {
                    return self.top_stmt_print(out);
                }
                let v = self.rng.pick(&refs).clone();
                let name = self.fresh("g");
                out.push(Stmt { text: format!("let {} = {}", name, v.name), allocs: Some(0), is_def: true });
                self.globals.push(Var { name, kind: v.kind });
            }
            17 => {
                let (s, x) = self.inner_stmt(depth, false);
                out.push(Stmt { text: s, allocs: x, is_def: false });
            }
            18 if self.cfg.f_blocks => {
                let levels = 2 + self.rng.usize_below(2) as u32;
                let (s, x) = self.shadow_stack(levels);
                out.push(Stmt { text: s, allocs: x, is_def: false });
            }
            _ => {
                let (e, x) = self.int_expr(depth);
                out.push(Stmt { text: e, allocs: x, is_def: false });
            }
        }
    }

    fn top_stmt_print(&mut self, out: &mut Vec<Stmt>) {
        let (p, x) = self.print_expr(self.cfg.depth);
        out.push(Stmt { text: p, allocs: x, is_def: false });
    }

    fn top_function(&mut self, out: &mut Vec<Stmt>) {
        let depth = self.cfg.depth;
        let name = self.fresh("f");
        if self.rng.below(6) == 0 {
            // bounded recursion template
            let text = format!("function {}(n) -> if n <= 0 then 0 else (n + {}((n - 1)))", name, name);
            out.push(Stmt { text, allocs: Some(0), is_def: true });
            self.funcs.push(Func { name: name.clone(), params: vec![], ret: Kind::Null, allocs: None });
            // call it once with a small literal; the registered signature above is deliberately
            // unusable by the expression generator (ret Null, no callers), the call is explicit
            let k = self.rng.range(0, 12);
            let g = self.fresh("g");
            out.push(Stmt { text: format!("let {} = {}({})", g, name, k), allocs: Some(0), is_def: true });
            self.globals.push(Var { name: g, kind: Kind::Int });
            return;
        }
        let nparams = self.rng.usize_below(4);
        let mut params = Vec::new();
        let mut scope = Vec::new();
        for _ in 0..nparams {
            let p = self.fresh("p");
            scope.push(Var { name: p.clone(), kind: Kind::Int });
            params.push(p);
        }
        let saved_scopes = std::mem::replace(&mut self.scopes, vec![scope]);
        let saved_in = std::mem::replace(&mut self.in_function, true);
        let ret = if self.rng.below(5) == 0 { Kind::Bool } else { Kind::Int };
        let (body, allocs) = if self.cfg.f_blocks && ret == Kind::Int && !params.is_empty() && self.rng.below(5) == 0 {
            // parameters re-declared in nested blocks of the body
            let names = params.clone();
            let (stack, x) = self.shadow_level(&names, 2, false);
            (format!("begin\n  {};\n  {}\nend", stack, params[0]), x)
        } else if self.cfg.f_blocks && self.rng.below(3) == 0 {
            // block body with locals, a loop, and a final value
            self.scopes.push(Vec::new());
            let mut parts = Vec::new();
            let mut allocs = Some(0);
            let n = 1 + self.rng.usize_below(3);
            for _ in 0..n {
                let (s, x) = self.inner_stmt(depth.min(2), true);
                allocs = add(allocs, x);
                parts.push(s);
            }
            if self.cfg.f_loops && self.rng.coin() {
                let i = self.fresh("i");
                let k = self.rng.range(0, 4);
                self.scopes.last_mut().unwrap().push(Var { name: i.clone(), kind: Kind::Int });
                self.protected.push(i.clone());
                let (b, x) = self.inner_stmt(depth.min(1), false);
                self.protected.pop();
                allocs = add(allocs, mul(x, k as u64));
                parts.push(format!("let {} = 0", i));
                parts.push(format!("while {} < {} do begin {}; {} <- {} + 1 end", i, k, b, i, i));
            }
            let (r, x) = self.expr(&ret, depth.min(2));
            allocs = add(allocs, x);
            parts.push(r);
            self.scopes.pop();
            (format!("begin\n  {}\nend", parts.join(";\n  ")), allocs)
        } else {
            self.expr(&ret, depth)
        };
        self.scopes = saved_scopes;
        self.in_function = saved_in;
        out.push(Stmt { text: format!("function {}({}) -> {}", name, params.join(", "), body), allocs: Some(0), is_def: true });
        self.funcs.push(Func { name, params: vec![Kind::Int; nparams], ret, allocs });
    }

    fn top_object(&mut self, out: &mut Vec<Stmt>) {
        let depth = self.cfg.depth.min(2);
        // parent
        let (parent_text, parent, mut allocs): (Option<String>, Parent, Option<u64>) = match self.rng.below(8) {
            0 => {
                let (e, x) = self.int_expr(1);
                (Some(e), Parent::Int, x)
            }
            1 => (Some((if self.rng.coin() { "true" } else { "false" }).to_string()), Parent::Bool, Some(0)),
            2 => {
                let arrs: Vec<Var> = self.globals.iter().filter(|v| matches!(v.kind, Kind::Arr(..))).cloned().collect();
                if let Some(a) = arrs.first() {
                    if let Kind::Arr(n, e) = &a.kind { (Some(a.name.clone()), Parent::Arr(*n, e.clone()), Some(0)) } else { (None, Parent::Null, Some(0)) }
                } else {
                    (None, Parent::Null, Some(0))
                }
            }
            3 | 4 => {
                let objs: Vec<Var> = self.globals.iter().filter(|v| matches!(v.kind, Kind::Obj(_))).cloned().collect();
                if objs.is_empty() {
                    (None, Parent::Null, Some(0))
                } else {
                    let o = self.rng.pick(&objs).clone();
                    let c = if let Kind::Obj(c) = o.kind { c } else { 0 };
                    (Some(o.name), Parent::Obj(c), Some(0))
                }
            }
            _ => (None, Parent::Null, Some(0)),
        };
        let class_index = self.classes.len();
        self.classes.push(Class { fields: vec![], methods: vec![], parent: parent.clone() });
        let mut members = Vec::new();
        let nfields = self.rng.usize_below(4);
        for _ in 0..nfields {
            let fname = self.fresh("a");
            let kind = match self.rng.below(6) { 0 => Kind::Bool, 1 => Kind::Null, _ => Kind::Int };
            let (e, x) = self.expr(&kind, depth);
            allocs = add(allocs, x);
            members.push(format!("let {} = {}", fname, e));
            self.classes[class_index].fields.push(Var { name: fname, kind });
        }
        let nmethods = self.rng.usize_below(4);
        for _ in 0..nmethods {
            let is_operator = self.rng.below(4) == 0;
            let (mname, nparams) = if is_operator {
                let ops = ["+", "-", "*", "/", "%", "<", ">", "<=", ">=", "==", "!=", "&", "|"];
                let op = self.rng.pick(&ops).to_string();
                if self.classes[class_index].methods.iter().any(|m| m.name == op) {
                    continue;
                }
                (op, 1)
            } else if self.rng.below(8) == 0 && !self.classes[class_index].methods.iter().any(|m| m.name == "get") {
                ("get".to_string(), 1)
            } else {
                (self.fresh("m"), self.rng.usize_below(3))
            };
            let mut scope = vec![Var { name: "this".to_string(), kind: Kind::Obj(class_index) }];
            let mut params = Vec::new();
            for _ in 0..nparams {
                let p = self.fresh("q");
                scope.push(Var { name: p.clone(), kind: Kind::Int });
                params.push(p);
            }
            let saved_scopes = std::mem::replace(&mut self.scopes, vec![scope]);
            let saved_in = std::mem::replace(&mut self.in_function, true);
            let (body, mallocs) = self.int_expr(depth);
            self.scopes = saved_scopes;
            self.in_function = saved_in;
            members.push(format!("function {}({}) -> {}", mname, params.join(", "), body));
            self.classes[class_index].methods.push(Method { name: mname, nparams, ret: Kind::Int, allocs: mallocs, is_operator });
        }
        allocs = add(allocs, Some(1));
        let ext = parent_text.map(|p| format!(" extends {}", p)).unwrap_or_default();
        let body = if members.is_empty() { "begin end".to_string() } else { format!("begin\n  {};\nend", members.join(";\n  ")) };
        let name = self.fresh("o");
        out.push(Stmt { text: format!("let {} = object{} {}", name, ext, body), allocs, is_def: true });
        self.globals.push(Var { name, kind: Kind::Obj(class_index) });
    }

    fn top_array(&mut self, out: &mut Vec<Stmt>) {
        let depth = self.cfg.depth;
        if self.tick.is_none() && self.rng.below(3) == 0 {
            let t = self.fresh("tick");
            out.push(Stmt { text: format!("let {} = 0", t), allocs: Some(0), is_def: true });
            self.globals.push(Var { name: t.clone(), kind: Kind::Int });
            self.tick = Some(t);
        }
        let len = match self.rng.below(8) { 0 => 0, 1 => 1, 7 => 8 + self.rng.usize_below(40), _ => 2 + self.rng.usize_below(5) };
        let objs: Vec<usize> = self.funcs.iter().filter_map(|f| if let Kind::Obj(c) = f.ret { Some(c) } else { None }).collect();
        let elem = if !objs.is_empty() && self.rng.below(4) == 0 {
            Kind::Obj(*self.rng.pick(&objs))
        } else if self.rng.below(8) == 0 {
            Kind::Bool
        } else {
            Kind::Int
        };
        let (e, x) = self.arr_expr(len, &elem, depth.min(2));
        let name = self.fresh("v");
        out.push(Stmt { text: format!("let {} = {}", name, e), allocs: x, is_def: true });
        self.globals.push(Var { name, kind: Kind::Arr(len, Box::new(elem)) });
    }

    fn top_loop(&mut self, out: &mut Vec<Stmt>) {
        let depth = self.cfg.depth.min(2);
        let i = self.fresh("i");
        let k = self.rng.range(0, 6);
        out.push(Stmt { text: format!("let {} = 0", i), allocs: Some(0), is_def: true });
        self.globals.push(Var { name: i.clone(), kind: Kind::Int });
        self.protected.push(i.clone());
        self.scopes.push(Vec::new());
        let n = 1 + self.rng.usize_below(3);
        let mut parts = Vec::new();
        let mut allocs = Some(0);
        for _ in 0..n {
            // the counter is protected: the body neither assigns nor shadows it
            let (s, x) = self.inner_stmt(depth, true);
            allocs = add(allocs, x);
            parts.push(s);
        }
        // optional nested loop (nesting <= 2)
        if self.rng.below(4) == 0 {
            let j = self.fresh("j");
            let kj = self.rng.range(0, 3);
            let (s, x) = self.print_expr(1);
            parts.push(format!("let {} = 0", j));
            parts.push(format!("while {} < {} do begin {}; {} <- {} + 1 end", j, kj, s, j, j));
            allocs = add(allocs, mul(x, kj as u64));
        }
        self.scopes.pop();
        self.protected.pop();
        parts.push(format!("{} <- {} + 1", i, i));
        out.push(Stmt {
            text: format!("while {} < {} do begin\n  {}\nend", i, k, parts.join(";\n  ")),
            allocs: mul(allocs, k as u64),
            is_def: false,
        });
    }
}

// ------------------------------------------------------------------------------------------------
// Format strings. The result is the text *between* the quotes of an FML string literal: the lexer
// admits any character except `\` and `"` raw, and the escapes \~ \n \t \r \\ \".

const PLAIN_WORDS: &[&str] = &["x", "ok", "value", " = ", ", ", "a b", "[", "]", "result:", "-", "0", "fml", " "];
const UNICODE_PIECES: &[&str] = &["é", "ß", "Ω", "ж", "中", "日本語", "한", "😀", "👍🏽", "𝔘", "\u{00a0}", "ñ", "ü", "€", "→", "∅", "\u{10ffff}", "\u{0301}"];
const CONTROL_PIECES: &[&str] = &["\u{0}", "\u{1}", "\u{7}", "\u{8}", "\u{b}", "\u{c}", "\u{1b}", "\u{7f}", "\u{85}", "\u{2028}", "\u{2029}", "\u{feff}", "\r\n", "\n", "\r", "\t", "\u{1f}", "\u{9f}", "\u{200b}", "\u{fffd}", "\u{fffe}"];
const META_PIECES: &[&str] = &[
    ": ", " #", "- ", "? ", "| ", "> ", "&a ", "*a", "!tag ", "%YAML", "@", "`", "'", "''", "{", "}", "[", "]", ",", "---", "...", "<<", "=",
    "null", "~", "true", "false", "yes", "no", "1e3", "0x1f", "0o7", ".inf", ".nan", "1_000", "012", "+1", "-", " ", "  ", "\t",
    "(", ")", ";", "#t", "#f", "#\\a", "'(", "|", ".", " . ", "nil", "()", "#(", ",@", "\\\\", "\\\"", "\\n", "\\t", "\\r", "\\~",
    "/*", "*/", "//", "\u{2028}", "\u{feff}", "\u{0}", "key: value", "- item", "a: b: c", "\"", "end", "begin", "&", "*", "!", "%", "@x", "`x`",
    // fragments that look like the structure of the serialized forms themselves: what a text-level
    // post-processing of JSON / S-expression / YAML output would damage inside a string
    ") (", ")(", "( ", " )", "(Top (", "(a . b)", "\" . \"", "(1 . 2) (3 . 4)", "))", "((", "{\"Top\":[", "\":{\"", "\",\"", "}},{", "]}", "[{", "\":", ",\"",
    "\n- ", "\n  - Print:", "\n---\n", "\n...\n", ": |", ": >", "? :", " :", ", ", "\n  ", "\n\n", " \n", "\n ", "\t- ", "- - ", "[]", "{}", "{0}", "%s", "$x", "${x}",
    "\\\\n", "\\\\\\\\", "\\\"\\\"", "&amp;", "<x>", "#!", "\r", "\r\n- a", "\u{85}", "\u{a0}", " \u{3000}", "\u{202e}", "\u{e000}", "\u{1f600}\u{200d}",
];

pub fn gen_format(rng: &mut Rng, regime: StrRegime, nargs: usize, long_max: usize) -> String {
    let regime = if regime == StrRegime::Mixed {
        *rng.pick(&[StrRegime::Plain, StrRegime::Unicode, StrRegime::Control, StrRegime::Meta])
    } else {
        regime
    };
    let mut pieces: Vec<String> = Vec::new();
    let n = match regime {
        StrRegime::Long => 0,
        _ => rng.usize_below(6),
    };
    for _ in 0..n {
        let p = match regime {
            StrRegime::Plain => *rng.pick(PLAIN_WORDS),
            StrRegime::Unicode => if rng.coin() { *rng.pick(UNICODE_PIECES) } else { *rng.pick(PLAIN_WORDS) },
            StrRegime::Control => if rng.coin() { *rng.pick(CONTROL_PIECES) } else { *rng.pick(PLAIN_WORDS) },
            StrRegime::Meta => *rng.pick(META_PIECES),
            _ => "x",
        };
        pieces.push(sanitize_piece(p));
    }
    if regime == StrRegime::Long {
        let len = match rng.below(5) {
            0 => 1000 + rng.usize_below(100),
            1 => 1020 + rng.usize_below(10),
            2 => 8180 + rng.usize_below(30),
            3 => 65530 + rng.usize_below(12).min(long_max.saturating_sub(65530)),
            _ => 1 + rng.usize_below(long_max.max(2) - 1),
        }
        .min(long_max.max(1));
        let with_breaks = rng.coin();
        let mut s = String::with_capacity(len + 8);
        let mut i = 0usize;
        let period = 17 + rng.usize_below(900);
        while s.len() < len {
            if with_breaks && i % period == period - 1 {
                s.push('\n');
            } else {
                s.push((b'a' + (i % 26) as u8) as char);
            }
            i += 1;
        }
        if with_breaks && rng.coin() {
            // a line break early, then a long tail: the LineWriter case
            s.insert(rng.usize_below(8.min(s.len())), '\n');
        }
        pieces.push(s);
    }
    // escapes
    let nesc = rng.usize_below(3);
    for _ in 0..nesc {
        pieces.push((*rng.pick(&["\\n", "\\t", "\\r", "\\\\", "\\\"", "\\~"])).to_string());
    }
    for _ in 0..nargs {
        pieces.push("~".to_string());
    }
    // shuffle (Fisher–Yates)
    for i in (1..pieces.len()).rev() {
        let j = rng.usize_below(i + 1);
        pieces.swap(i, j);
    }
    let mut out = pieces.concat();
    if regime != StrRegime::Long && rng.below(3) != 0 {
        out.push_str("\\n");
    }
    out
}

/// Make an arbitrary piece legal inside an FML string literal without changing its spirit:
/// a raw `"` becomes `\"`, a raw `\` must start a legal escape, a raw `~` would be a placeholder.
fn sanitize_piece(p: &str) -> String {
    let mut out = String::new();
    let mut chars = p.chars().peekable();
    while let Some(c) = chars.next() {
        match c {
            '"' => out.push_str("\\\""),
            '~' => out.push_str("\\~"),
            '\\' => match chars.peek() {
                Some('~') | Some('n') | Some('t') | Some('r') | Some('\\') | Some('"') => {
                    out.push('\\');
                    out.push(chars.next().unwrap());
                }
                _ => out.push_str("\\\\"),
            },
            c => out.push(c),
        }
    }
    out
}

// ------------------------------------------------------------------------------------------------

pub fn generate(rng: &mut Rng, cfg: &GenCfg) -> GenProgram {
    let mut ctx = Ctx {
        rng,
        cfg: cfg.clone(),
        globals: Vec::new(),
        funcs: Vec::new(),
        classes: Vec::new(),
        scopes: Vec::new(),
        in_function: false,
        counter: 0,
        used_hostile: vec![false; HOSTILE_IDENTS.len()],
        tick: None,
        protected: Vec::new(),
    };
    let mut out = Vec::new();
    // a few seed definitions so that later statements have something to work with
    if ctx.rng.coin() {
        let name = ctx.fresh("g");
        let lit = ctx.int_lit();
        out.push(Stmt { text: format!("let {} = {}", name, lit), allocs: Some(0), is_def: true });
        ctx.globals.push(Var { name, kind: Kind::Int });
    }
    if ctx.cfg.f_objects && ctx.cfg.f_functions && ctx.rng.below(3) == 0 {
        // an object factory: lets arrays of objects and fresh instances exist
        let class_index = ctx.classes.len();
        let fname = ctx.fresh("a");
        let mname = ctx.fresh("m");
        ctx.classes.push(Class {
            fields: vec![Var { name: fname.clone(), kind: Kind::Int }],
            methods: vec![Method { name: mname.clone(), nparams: 1, ret: Kind::Int, allocs: Some(0), is_operator: false }],
            parent: Parent::Null,
        });
        let f = ctx.fresh("mk");
        let q = ctx.fresh("q");
        let lit = ctx.int_lit();
        out.push(Stmt {
            text: format!("function {}() -> object begin let {} = {}; function {}({}) -> (this.{} + {}); end", f, fname, lit, mname, q, fname, q),
            allocs: Some(0),
            is_def: true,
        });
        ctx.funcs.push(Func { name: f, params: vec![], ret: Kind::Obj(class_index), allocs: Some(1) });
    }
    while out.len() < cfg.stmts {
        ctx.top_stmt(&mut out);
    }
    GenProgram { stmts: out }
}
