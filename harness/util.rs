//! Shared plumbing: the single PRNG discipline, digests, the parallel driver and panic capture.
//! Nothing in here reads a clock or draws entropy from the OS.

use std::cell::RefCell;
use std::hash::{Hash, Hasher};
use std::sync::atomic::{AtomicUsize, Ordering};
use std::sync::Mutex;

// ------------------------------------------------------------------------------------------------
// PRNG: SplitMix64 to derive per-case keys, xoshiro256** per case.

#[inline]
pub fn splitmix(state: &mut u64) -> u64 {
    *state = state.wrapping_add(0x9E37_79B9_7F4A_7C15);
    let mut z = *state;
    z = (z ^ (z >> 30)).wrapping_mul(0xBF58_476D_1CE4_E5B9);
    z = (z ^ (z >> 27)).wrapping_mul(0x94D0_49BB_1331_11EB);
    z ^ (z >> 31)
}

#[derive(Clone, Debug)]
pub struct Rng {
    s: [u64; 4],
}

impl Rng {
    pub fn from_u64(seed: u64) -> Rng {
        let mut st = seed;
        let s = [splitmix(&mut st), splitmix(&mut st), splitmix(&mut st), splitmix(&mut st)];
        Rng { s }
    }
    /// The per-case generator: a pure function of (VERIF_SEED, property, engine, case index).
    pub fn for_case(seed: u64, property: &str, engine: &str, case: u64) -> Rng {
        let mut st = seed ^ 0xA076_1D64_78BD_642F;
        let mut acc = splitmix(&mut st);
        for b in property.bytes().chain(std::iter::once(0u8)).chain(engine.bytes()) {
            st ^= (b as u64).wrapping_mul(0x1000_0000_01B3);
            acc ^= splitmix(&mut st);
        }
        st ^= case.wrapping_mul(0xD6E8_FEB8_6659_FD93);
        acc ^= splitmix(&mut st);
        Rng::from_u64(acc)
    }
    #[inline]
    pub fn next_u64(&mut self) -> u64 {
        let result = self.s[1].wrapping_mul(5).rotate_left(7).wrapping_mul(9);
        let t = self.s[1] << 17;
        self.s[2] ^= self.s[0];
        self.s[3] ^= self.s[1];
        self.s[1] ^= self.s[2];
        self.s[0] ^= self.s[3];
        self.s[2] ^= t;
        self.s[3] = self.s[3].rotate_left(45);
        result
    }
    /// Uniform in 0..n (n > 0).
    #[inline]
    pub fn below(&mut self, n: u64) -> u64 {
        debug_assert!(n > 0);
        // multiply-shift; bias is irrelevant for our n
        ((self.next_u64() as u128 * n as u128) >> 64) as u64
    }
    #[inline]
    pub fn usize_below(&mut self, n: usize) -> usize {
        self.below(n as u64) as usize
    }
    /// Uniform in lo..=hi.
    #[inline]
    pub fn range(&mut self, lo: i64, hi: i64) -> i64 {
        lo + self.below((hi - lo + 1) as u64) as i64
    }
    #[inline]
    pub fn chance(&mut self, num: u64, den: u64) -> bool {
        self.below(den) < num
    }
    #[inline]
    pub fn coin(&mut self) -> bool {
        self.next_u64() & 1 == 1
    }
    pub fn pick<'a, T>(&mut self, items: &'a [T]) -> &'a T {
        &items[self.usize_below(items.len())]
    }
    pub fn fork(&mut self) -> Rng {
        Rng::from_u64(self.next_u64())
    }
}

// ------------------------------------------------------------------------------------------------
// Digests (deterministic: SipHash-1-3 with the all-zero key that DefaultHasher::new() uses).

pub fn digest_bytes(bytes: &[u8]) -> u64 {
    let mut h = std::collections::hash_map::DefaultHasher::new();
    bytes.hash(&mut h);
    h.finish()
}

pub fn digest_of<T: Hash + ?Sized>(value: &T) -> u64 {
    let mut h = std::collections::hash_map::DefaultHasher::new();
    value.hash(&mut h);
    h.finish()
}

pub fn hex64(x: u64) -> String {
    format!("{:016x}", x)
}

// ------------------------------------------------------------------------------------------------
// Parallel map with index-ordered results. Parallelism affects throughput only.

pub fn workers() -> usize {
    std::env::var("VERIF_WORKERS").ok().and_then(|s| s.parse().ok()).filter(|n| *n >= 1).unwrap_or(16)
}

extern "C" {
    fn malloc_trim(pad: usize) -> i32;
}

/// glibc keeps one arena per thread and cannot give memory back while long-lived results are interleaved with the
/// short-lived megabyte-sized values real FML programs allocate; without trimming, a long in-process batch grows by
/// hundreds of MB per second until the OOM killer ends it. Trimming is purely a resource matter: it changes no result.
pub fn trim_allocator() {
    unsafe {
        malloc_trim(0);
    }
}

pub fn par_map<T, F>(n: usize, f: F) -> Vec<T>
where
    T: Send,
    F: Fn(usize) -> T + Sync,
{
    let w = workers().min(n.max(1));
    let next = AtomicUsize::new(0);
    let slots: Vec<Mutex<Option<T>>> = (0..n).map(|_| Mutex::new(None)).collect();
    std::thread::scope(|scope| {
        for _ in 0..w {
            std::thread::Builder::new()
                .stack_size(256 << 20)
                .spawn_scoped(scope, || loop {
                    let i = next.fetch_add(1, Ordering::Relaxed);
                    if i >= n {
                        break;
                    }
                    let value = f(i);
                    *slots[i].lock().unwrap() = Some(value);
                    if i % 512 == 511 {
                        trim_allocator();
                    }
                })
                .expect("cannot spawn worker");
        }
    });
    slots.into_iter().map(|m| m.into_inner().unwrap().expect("worker lost a case")).collect()
}

// ------------------------------------------------------------------------------------------------
// Panic capture: FML reports many errors by panicking; the harness needs the message, not the noise.

thread_local! {
    static LAST_PANIC: RefCell<Option<String>> = RefCell::new(None);
    static QUIET: RefCell<bool> = RefCell::new(false);
}

pub fn install_panic_hook() {
    let default = std::panic::take_hook();
    std::panic::set_hook(Box::new(move |info| {
        let quiet = QUIET.with(|q| *q.borrow());
        if quiet {
            let msg = if let Some(s) = info.payload().downcast_ref::<&str>() {
                (*s).to_string()
            } else if let Some(s) = info.payload().downcast_ref::<String>() {
                s.clone()
            } else {
                "<non-string panic>".to_string()
            };
            LAST_PANIC.with(|c| *c.borrow_mut() = Some(msg));
        } else {
            default(info);
        }
    }));
}

/// Runs `f`, turning a panic into Err(message). The panic message is not printed.
pub fn catch<T, F: FnOnce() -> T>(f: F) -> Result<T, String> {
    let previous = QUIET.with(|q| std::mem::replace(&mut *q.borrow_mut(), true));
    let result = std::panic::catch_unwind(std::panic::AssertUnwindSafe(f));
    QUIET.with(|q| *q.borrow_mut() = previous);
    match result {
        Ok(v) => Ok(v),
        Err(_) => Err(LAST_PANIC.with(|c| c.borrow_mut().take()).unwrap_or_else(|| "<panic>".to_string())),
    }
}

// ------------------------------------------------------------------------------------------------
// Small helpers.

pub fn first_line(s: &str, max: usize) -> String {
    let line = s.lines().next().unwrap_or("");
    let mut out: String = line.chars().take(max).collect();
    if line.chars().count() > max {
        out.push('…');
    }
    out
}

/// Bytes as a JSON-friendly string: UTF-8 if valid and short, hex otherwise.
pub fn show_bytes(bytes: &[u8], max: usize) -> String {
    let cut = &bytes[..bytes.len().min(max)];
    let mut s = String::new();
    for b in cut {
        s.push_str(&format!("{:02x}", b));
    }
    if bytes.len() > max {
        s.push_str(&format!("…(+{} bytes)", bytes.len() - max));
    }
    s
}

pub fn to_hex(bytes: &[u8]) -> String {
    let mut s = String::with_capacity(bytes.len() * 2);
    for b in bytes {
        s.push_str(&format!("{:02x}", b));
    }
    s
}

pub fn from_hex(s: &str) -> Option<Vec<u8>> {
    if s.len() % 2 != 0 {
        return None;
    }
    (0..s.len() / 2).map(|i| u8::from_str_radix(&s[2 * i..2 * i + 2], 16).ok()).collect()
}

pub fn first_difference(a: &[u8], b: &[u8]) -> Option<usize> {
    let n = a.len().min(b.len());
    for i in 0..n {
        if a[i] != b[i] {
            return Some(i);
        }
    }
    if a.len() != b.len() {
        Some(n)
    } else {
        None
    }
}

// ------------------------------------------------------------------------------------------------
// Breadcrumbs: real FML code runs inside the orchestrator in the in-process layers. If it *aborts*
// (allocation failure, native stack overflow) the whole orchestrator dies and cannot report. Each
// worker therefore leaves the unit it is about to run in a small file; the check script replays the
// in-flight units of a dead orchestrator one by one in fresh processes and reports the one that dies.

static CRUMB_SEQ: AtomicUsize = AtomicUsize::new(0);
thread_local! {
    static CRUMB_SLOT: usize = CRUMB_SEQ.fetch_add(1, Ordering::Relaxed);
}

pub fn breadcrumb(property: &str, unit: serde_json::Value) {
    if std::env::var("VERIF_NO_BREADCRUMBS").is_ok() {
        return;
    }
    let slot = CRUMB_SLOT.with(|s| *s);
    let dir = super::proc::scratch_root();
    let _ = std::fs::create_dir_all(&dir);
    let doc = serde_json::json!({
        "property": property,
        "oracle": "X0:toolchain_code_aborted_natively_in_process",
        "detail": "the orchestrator died by a signal while this unit ran real FML code in-process",
        "signature": {"engine": "in-process-abort"},
        "replay": {"engine": "in-process-abort", "unit": unit},
    });
    let _ = std::fs::write(dir.join(format!("inflight-{}.json", slot)), doc.to_string());
}

/// Digits carry pids, thread ids and line numbers: every run of digits becomes a single '#'.
pub fn mask_digits(s: &str) -> String {
    let mut out = String::with_capacity(s.len());
    let mut in_run = false;
    for c in s.chars() {
        if c.is_ascii_digit() {
            if !in_run { out.push('#'); }
            in_run = true;
        } else {
            out.push(c);
            in_run = false;
        }
    }
    out
}
