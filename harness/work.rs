//! Workload plumbing shared by the checks: program specifications that can be written into a
//! replay file and rebuilt from it, the in-repo corpus (W4), and generated programs (W1/W2).

use serde_json::{json, Value};
use std::path::PathBuf;

use crate::bytecode::program::Program;

use super::foreign::{self, FModel, ModelCfg};
use super::gen::{self, GenCfg};
use super::util::{from_hex, to_hex, Rng};
use super::vm;

pub fn repo_root() -> PathBuf {
    PathBuf::from(std::env::var("FML_REPO").unwrap_or_else(|_| "/repo".to_string()))
}

#[derive(Clone, Debug)]
pub enum ProgSpec {
    /// top-level statements, joined with ";\n" — shrinkable by deleting statements
    Stmts(Vec<String>),
    /// one opaque source text (corpus file)
    Source(String),
    /// a format-level model built into a Program through the public constructor (W2)
    Model(FModel),
    /// a serialized image loaded with FML's loader (corpus .bc)
    Image(Vec<u8>),
}

impl ProgSpec {
    pub fn source(&self) -> Option<String> {
        match self {
            ProgSpec::Stmts(v) => Some(join_stmts(v)),
            ProgSpec::Source(s) => Some(s.clone()),
            _ => None,
        }
    }
    pub fn build(&self) -> Result<Program, String> {
        match self {
            ProgSpec::Stmts(_) | ProgSpec::Source(_) => vm::compile_source(&self.source().unwrap()),
            ProgSpec::Model(m) => foreign::build_program(m),
            ProgSpec::Image(b) => vm::load_from_slice(b),
        }
    }
    pub fn to_json(&self) -> Value {
        match self {
            ProgSpec::Stmts(v) => json!({"stmts": v}),
            ProgSpec::Source(s) => json!({"source": s}),
            // a pool beyond the u16 count cannot be written by any encoder: such a model is recorded by its construction
            ProgSpec::Model(m) if m.consts.len() > 65_535 => json!({"boundary_pool": m.consts.len()}),
            ProgSpec::Model(m) => json!({"model_hex": to_hex(&foreign::encode(m))}),
            ProgSpec::Image(b) => json!({"image_hex": to_hex(b)}),
        }
    }
    pub fn from_json(v: &Value) -> Option<ProgSpec> {
        if let Some(a) = v.get("stmts").and_then(|x| x.as_array()) {
            return Some(ProgSpec::Stmts(a.iter().filter_map(|s| s.as_str().map(|s| s.to_string())).collect()));
        }
        if let Some(s) = v.get("source").and_then(|x| x.as_str()) {
            return Some(ProgSpec::Source(s.to_string()));
        }
        if let Some(n) = v.get("boundary_pool").and_then(|x| x.as_u64()) {
            return Some(ProgSpec::Model(foreign::boundary_pool_model(n as usize)));
        }
        if let Some(h) = v.get("model_hex").and_then(|x| x.as_str()) {
            let bytes = from_hex(h)?;
            return foreign::decode(&bytes).ok().map(|(m, _)| ProgSpec::Model(m));
        }
        if let Some(h) = v.get("image_hex").and_then(|x| x.as_str()) {
            return from_hex(h).map(ProgSpec::Image);
        }
        None
    }
    pub fn brief(&self) -> Value {
        match self {
            ProgSpec::Stmts(v) => {
                let s = join_stmts(v);
                json!({"kind": "generated_source", "statements": v.len(), "bytes": s.len(), "head": head(&s)})
            }
            ProgSpec::Source(s) => json!({"kind": "corpus_source", "bytes": s.len(), "head": head(s)}),
            ProgSpec::Model(m) => json!({"kind": "direct_model", "constants": m.consts.len(), "globals": m.globals.len()}),
            ProgSpec::Image(b) => json!({"kind": "corpus_image", "bytes": b.len()}),
        }
    }
}

fn head(s: &str) -> String {
    let mut out: String = s.chars().take(160).collect();
    if s.chars().count() > 160 {
        out.push('…');
    }
    out
}

pub fn join_stmts(v: &[String]) -> String {
    let mut s = v.join(";\n");
    s.push('\n');
    s
}

// ------------------------------------------------------------------------------------------------
// W4: the in-repo corpus

fn walk(dir: &PathBuf, ext: &str, out: &mut Vec<PathBuf>) {
    if let Ok(rd) = std::fs::read_dir(dir) {
        let mut entries: Vec<PathBuf> = rd.filter_map(|e| e.ok().map(|e| e.path())).collect();
        entries.sort();
        for p in entries {
            if p.is_dir() {
                walk(&p, ext, out);
            } else if p.extension().and_then(|e| e.to_str()) == Some(ext) {
                out.push(p);
            }
        }
    }
}

pub fn corpus_files(ext: &str) -> Vec<(String, Vec<u8>)> {
    let root = repo_root();
    let mut paths = Vec::new();
    walk(&root.join("tests"), ext, &mut paths);
    walk(&root.join("examples"), ext, &mut paths);
    paths
        .into_iter()
        .filter_map(|p| {
            let rel = p.strip_prefix(&root).map(|r| r.display().to_string()).unwrap_or_else(|_| p.display().to_string());
            std::fs::read(&p).ok().map(|b| (rel, b))
        })
        .collect()
}

pub fn corpus_specs() -> Vec<(String, ProgSpec)> {
    let mut out = Vec::new();
    for (name, bytes) in corpus_files("fml") {
        if let Ok(text) = String::from_utf8(bytes) {
            out.push((name, ProgSpec::Source(text)));
        }
    }
    for (name, bytes) in corpus_files("bc") {
        out.push((name, ProgSpec::Image(bytes)));
    }
    out
}

// ------------------------------------------------------------------------------------------------
// Generated programs

pub fn gen_source_spec(rng: &mut Rng, cfg: &GenCfg) -> (ProgSpec, Option<u64>) {
    let p = gen::generate(rng, cfg);
    let allocs = p.allocs();
    (ProgSpec::Stmts(p.stmts.into_iter().map(|s| s.text).collect()), allocs)
}

pub fn gen_model_spec(rng: &mut Rng, big: bool) -> ProgSpec {
    let cfg = ModelCfg {
        max_consts: if big && rng.below(4) == 0 { 400 } else { 40 },
        max_code: if big && rng.below(8) == 0 { 70_000 } else { 300 },
        long_string: if big { Some(70 * 1024) } else { Some(2048) },
        many_methods: rng.below(5) == 0,
    };
    ProgSpec::Model(foreign::gen_model(rng, &cfg))
}

// ------------------------------------------------------------------------------------------------
// Qualification: a process-level check only takes programs whose own in-process run finishes
// within a step budget (a generated program that does not terminate is a generator defect, not a
// finding; it must not cost a 20 s watchdog per child).

pub fn qualify(spec: &ProgSpec, step_budget: u64) -> Option<vm::RunResult> {
    let program = match spec.build() {
        Ok(p) => p,
        Err(_) => return None,
    };
    let r = vm::run(&program, &vm::RunCfg { step_budget, ..Default::default() });
    if r.end == vm::RunEnd::Budget { None } else { Some(r) }
}

/// true when the source does not even compile (still a legitimate subject for some checks)
pub fn builds(spec: &ProgSpec) -> bool {
    spec.build().is_ok()
}
