#!/bin/bash
# tools/confirm_mutant.sh <mutant-dir> — confirm in the scratch worktree /tmp/fml-own that the change compiles,
# passes the 259 tests, and that its demo fails with the change and passes without. Prints a JSON line.
set -u
d="$(readlink -f "$1")"; WT=/tmp/fml-own
cd $WT && git checkout -q -- . && git clean -fdq -e target >/dev/null 2>&1
# demos that derive the source tree from their own location must live inside the tree under test
mkdir -p $WT/_mutant/confirm && cp -r "$d"/. $WT/_mutant/confirm/ && d=$WT/_mutant/confirm
export CARGO_NET_OFFLINE=true
res() { echo "{\"applies\":$1,\"tests_with_change\":\"$2\",\"demo_with_change_exit\":$3,\"demo_without_change_exit\":$4}"; }
git apply "$d/patch.diff" || { res false - -1 -1; exit 1; }
cargo build --offline -q 2>/dev/null; cargo build --release --offline -q 2>/dev/null
t=$(cargo test --offline 2>&1 | grep -E "^test result" | sed 's/;.*//' | head -1)
if [ -x "$d/demo.sh" ]; then (cd $WT && timeout 600 "$d/demo.sh" target/debug/fml >/tmp/demo_with.log 2>&1); a=$?; else a=-2; fi
git checkout -q -- .
cargo build --offline -q 2>/dev/null; cargo build --release --offline -q 2>/dev/null
if [ -x "$d/demo.sh" ]; then (cd $WT && timeout 600 "$d/demo.sh" target/debug/fml >/tmp/demo_without.log 2>&1); b=$?; else b=-2; fi
res true "$t" $a $b
