/* libfmlsim.so — layer B of the FML simulator (DESIGN §3.2).
 *
 * Loaded with LD_PRELOAD into the unmodified `fml` CLI. It owns the process's entropy, wall clock
 * and the outcome of every read()/write() on stdin, stdout and regular files, all according to an
 * explicit plan handed over in environment variables. The shim contains no randomness of its own
 * except the seeded stream served through getrandom(). fd 2 is never touched. Every intercepted
 * call and its simulated result is appended to a trace file through the raw system call.
 *
 *   FMLSIM_ONLY=<suffix>     be completely inert (no plan, no trace, no clock, real entropy) in any process whose executable path
 *                            does not end with <suffix>: the wrapper script's bash and its helpers are not the system under test
 *   FMLSIM_SEED=<u64>        seed of the getrandom() byte stream (controls std RandomState)
 *   FMLSIM_TRACE=<path>      trace file (optional)
 *   FMLSIM_CLOCK=<base_ns>:<step_ns>[;<n>:<delta_ns>]...   scripted CLOCK_REALTIME: reading k returns
 *                            base + k*step + sum(delta_j for n_j <= k), never below 1 s after the epoch
 *   FMLSIM_JUNK=<n>          n seeded leaked allocations before main (shifts heap addresses)
 *   FMLSIM_CPU=<s>          CPU-time rlimit (watchdog) and a 12 GiB address-space rlimit set inside the child
 *   FMLSIM_BUDGET=<n>        total intercepted read/write calls allowed; beyond it calls fail with EIO
 *   FMLSIM_PLAN=<entry>[;<entry>]...   entry = <class>:<index|*>:<action>:<arg>
 *       class  o = write on fd 1, f = write on fd >= 3, i = read on fd 0, r = read on fd >= 3,
 *              e = write on fd 2 (touched only when the plan names class e: the reader of stderr went away, stderr on a full disk)
 *       action l = accept/deliver at most <arg> bytes (usually with index *)
 *              s = short: accept/deliver <arg> bytes (clamped to 1..len-1)
 *              b = short: all but one byte
 *              e = fail with EINTR, nothing transferred
 *              x = fail hard with errno <arg>; sticky for the class
 *              y = fail hard with errno <arg> on this call only (a one-off EIO)
 *              S = signal <arg> (SIGTERM 15, SIGINT 2, SIGHUP 1, ...) is delivered to the process just before this call, which is
 *                  then carried out if the process still lives
 *              K = the process is killed (SIGKILL) at this call: <arg> bytes of the request are transferred first (0 = none)
 *   FMLSIM_CLOCK_S=<seconds> added to every scripted reading (years beyond what fits into 64-bit nanoseconds: 2262, 2554)
 *   FMLSIM_SCHED_DIR=<dir>, FMLSIM_SCHED_ID=<name>, FMLSIM_SCHED_AT=<kind>[,<kind>...]
 *                            cooperative scheduling of several live processes by the harness: before each of its first 8 calls of a
 *                            listed kind (openw = open for writing/creating, mkdir, rename, unlink, flock, writef = write on fd >= 3)
 *                            the process announces itself (<dir>/<name>.<n>.at) and waits until the harness lets it go
 *                            (<dir>/<name>.<n>.go). Who proceeds is the harness's decision, not the kernel's.
 *   FMLSIM_AS=<bytes>        address-space rlimit of the child instead of the default 12 GiB (a container's memory limit, ulimit -v)
 */
#define _GNU_SOURCE
#include <errno.h>
#include <fcntl.h>
#include <stdint.h>
#include <stdio.h>
#include <stdlib.h>
#include <string.h>
#include <sys/resource.h>
#include <sys/syscall.h>
#include <sys/time.h>
#include <sys/types.h>
#include <sys/uio.h>
#include <time.h>
#include <unistd.h>
#include <signal.h>

#define MAX_PLAN 4096
#define MAX_JUMPS 256

struct entry { char cls; long idx; char act; long arg; };

static struct entry plan[MAX_PLAN];
static int plan_len = 0;
static long counter[5];          /* o f i r e */
static int dead_errno[5];
static int plan_has_e = 0;
static long budget = -1, calls_total = 0;
static int trace_fd = -1;
static uint64_t rnd_state = 0x243F6A8885A308D3ull;
static int have_clock = 0;
static int64_t clock_base = 0, clock_step = 0;
static long clock_reads = 0;
static struct { long n; int64_t delta; } jumps[MAX_JUMPS];
static int jump_len = 0;
static int initialised = 0;
static int inert = 0;
static int64_t clock_extra_s = 0;
static char sched_dir[512];
static char sched_id[32];
static char sched_at[128];
static int sched_on = 0, sched_seq = 0;

static uint64_t splitmix(void) {
    uint64_t z = (rnd_state += 0x9E3779B97F4A7C15ull);
    z = (z ^ (z >> 30)) * 0xBF58476D1CE4E5B9ull;
    z = (z ^ (z >> 27)) * 0x94D049BB133111EBull;
    return z ^ (z >> 31);
}

static void trace(const char *fmt, ...) __attribute__((format(printf, 1, 2)));
#include <stdarg.h>
static void trace(const char *fmt, ...) {
    if (trace_fd < 0) return;
    char buf[256];
    va_list ap;
    va_start(ap, fmt);
    int n = vsnprintf(buf, sizeof buf, fmt, ap);
    va_end(ap);
    if (n > 0) {
        if (n > (int)sizeof buf) n = sizeof buf;
        long r = syscall(SYS_write, trace_fd, buf, (size_t)n);
        (void)r;
    }
}

static int class_of(char c) { return c == 'o' ? 0 : c == 'f' ? 1 : c == 'i' ? 2 : c == 'r' ? 3 : c == 'e' ? 4 : -1; }
static const char CLS[5] = { 'o', 'f', 'i', 'r', 'e' };

static void init(void) {
    if (initialised) return;
    initialised = 1;
    const char *s;
    if ((s = getenv("FMLSIM_ONLY")) && *s) {
        char exe[4096];
        ssize_t n = readlink("/proc/self/exe", exe, sizeof exe - 1);
        size_t want = strlen(s);
        if (n < 0 || (size_t)n < want || memcmp(exe + n - want, s, want) != 0) { inert = 1; return; }
    }
    if ((s = getenv("FMLSIM_SEED"))) rnd_state ^= strtoull(s, NULL, 10) * 0x2545F4914F6CDD1Dull;
    if ((s = getenv("FMLSIM_BUDGET"))) budget = strtol(s, NULL, 10);
    if ((s = getenv("FMLSIM_CPU"))) {
        /* the watchdog: a CPU-time limit inside the child (SIGXCPU), so the harness reads no clock */
        struct rlimit rl;
        rl.rlim_cur = (rlim_t)strtol(s, NULL, 10);
        rl.rlim_max = rl.rlim_cur + 2;
        setrlimit(RLIMIT_CPU, &rl);
        rl.rlim_cur = rl.rlim_max = (rlim_t)12 << 30;
        const char *as = getenv("FMLSIM_AS");
        if (as && *as) rl.rlim_cur = rl.rlim_max = (rlim_t)strtoull(as, NULL, 10);
        setrlimit(RLIMIT_AS, &rl);
    }
    if ((s = getenv("FMLSIM_CLOCK_S")) && *s) clock_extra_s = strtoll(s, NULL, 10);
    {
        const char *d = getenv("FMLSIM_SCHED_DIR"), *i = getenv("FMLSIM_SCHED_ID"), *a = getenv("FMLSIM_SCHED_AT");
        if (d && *d && i && *i && a && *a && strlen(d) < sizeof sched_dir - 64 && strlen(i) < sizeof sched_id && strlen(a) < sizeof sched_at - 2) {
            strcpy(sched_dir, d); strcpy(sched_id, i); sched_at[0] = ','; strcpy(sched_at + 1, a); strcat(sched_at, ",");
            sched_on = 1;
        }
    }
    if ((s = getenv("FMLSIM_TRACE")) && *s) {
        int fd = (int)syscall(SYS_openat, AT_FDCWD, s, O_WRONLY | O_CREAT | O_APPEND | O_CLOEXEC, 0644);
        if (fd >= 0) {
            int hi = fcntl(fd, F_DUPFD_CLOEXEC, 1000);
            if (hi >= 0) { close(fd); trace_fd = hi; } else trace_fd = fd;
        }
    }
    if ((s = getenv("FMLSIM_CLOCK")) && *s) {
        char *copy = strdup(s), *save = NULL;
        int first = 1;
        for (char *tok = strtok_r(copy, ";", &save); tok; tok = strtok_r(NULL, ";", &save)) {
            char *colon = strchr(tok, ':');
            if (!colon) continue;
            *colon = 0;
            if (first) {
                clock_base = strtoll(tok, NULL, 10);
                clock_step = strtoll(colon + 1, NULL, 10);
                have_clock = 1;
                first = 0;
            } else if (jump_len < MAX_JUMPS) {
                jumps[jump_len].n = strtol(tok, NULL, 10);
                jumps[jump_len].delta = strtoll(colon + 1, NULL, 10);
                jump_len++;
            }
        }
        free(copy);
    }
    if ((s = getenv("FMLSIM_PLAN")) && *s) {
        char *copy = strdup(s), *save = NULL;
        for (char *tok = strtok_r(copy, ";", &save); tok && plan_len < MAX_PLAN; tok = strtok_r(NULL, ";", &save)) {
            char cls, act, idxs[32];
            long arg = 0;
            if (sscanf(tok, "%c:%31[^:]:%c:%ld", &cls, idxs, &act, &arg) >= 3 && class_of(cls) >= 0) {
                if (cls == 'e') plan_has_e = 1;
                plan[plan_len].cls = cls;
                plan[plan_len].idx = idxs[0] == '*' ? -1 : strtol(idxs, NULL, 10);
                plan[plan_len].act = act;
                plan[plan_len].arg = arg;
                plan_len++;
            }
        }
        free(copy);
    }
    if ((s = getenv("FMLSIM_JUNK"))) {
        long n = strtol(s, NULL, 10);
        uint64_t saved = rnd_state;
        rnd_state ^= 0xA5A5A5A5A5A5A5A5ull;
        for (long i = 0; i < n && i < 4096; i++) {
            size_t sz = 16 + (size_t)(splitmix() % 4000);
            volatile char *p = malloc(sz);
            if (p) p[0] = 1; /* leaked on purpose */
        }
        rnd_state = saved;
    }
    {
        /* addresses are part of the trace on purpose: with ASLR off they are identical across replays */
        int on_stack = 0;
        void *on_heap = malloc(1);
        trace("INIT plan=%d clock=%d sp=%p heap=%p\n", plan_len, have_clock, (void *)&on_stack, on_heap);
        free(on_heap);
    }
}

__attribute__((constructor)) static void ctor(void) { init(); }

/* Decide the outcome for call number `n` of class `c` asking for `len` bytes.
 * Returns: >0 bytes to transfer, 0 = pass `len` through unchanged, <0 = -errno. */
static long kill_after = 0;
static long decide(int c, long n, size_t len) {
    if (dead_errno[c]) return -dead_errno[c];
    long allowed = (long)len;
    for (int k = 0; k < plan_len; k++) {
        if (class_of(plan[k].cls) != c) continue;
        if (plan[k].idx != -1 && plan[k].idx != n) continue;
        switch (plan[k].act) {
        case 'e': if (plan[k].idx == n) return -EINTR; break;
        case 'x': dead_errno[c] = plan[k].arg > 0 ? (int)plan[k].arg : EIO; return -dead_errno[c];
        case 'y': if (plan[k].idx == n) return -(plan[k].arg > 0 ? (int)plan[k].arg : EIO); break;
        case 'S': if (plan[k].idx == n) { trace("SIG %ld before call %ld of class %c\n", plan[k].arg, n, CLS[c]); syscall(SYS_kill, syscall(SYS_getpid), (int)plan[k].arg); } break;
        case 'K': if (plan[k].idx == n) { kill_after = plan[k].arg < 0 ? 0 : plan[k].arg; if (kill_after > (long)len) kill_after = (long)len; return -100000; } break;
        case 's': if (len > 1) { long a = plan[k].arg < 1 ? 1 : plan[k].arg; if (a > (long)len - 1) a = (long)len - 1; if (a < allowed) allowed = a; } break;
        case 'b': if (len > 1 && (long)len - 1 < allowed) allowed = (long)len - 1; break;
        case 'l': { long a = plan[k].arg < 1 ? 1 : plan[k].arg; if (a < allowed) allowed = a; } break;
        default: break;
        }
    }
    return allowed;
}

static int over_budget(void) {
    calls_total++;
    if (budget >= 0 && calls_total > budget) {
        if (calls_total == budget + 1) trace("BUDGET exceeded after %ld calls\n", budget);
        return 1;
    }
    return 0;
}


/* ---- cooperative scheduling points ------------------------------------------------------------------------------------ */
static void sched_point(const char *kind) {
    if (!sched_on || inert || sched_seq >= 8) return;
    char needle[40];
    snprintf(needle, sizeof needle, ",%s,", kind);
    if (!strstr(sched_at, needle)) return;
    int n = sched_seq++;
    char path[700], tmp[700];
    snprintf(path, sizeof path, "%s/%s.%d.at", sched_dir, sched_id, n);
    snprintf(tmp, sizeof tmp, "%s/%s.%d.tmp", sched_dir, sched_id, n);
    /* published atomically: the harness never sees the announcement without its contents */
    int fd = (int)syscall(SYS_openat, AT_FDCWD, tmp, O_WRONLY | O_CREAT | O_CLOEXEC, 0644);
    if (fd >= 0) { long r = syscall(SYS_write, fd, kind, strlen(kind)); (void)r; syscall(SYS_close, fd); }
    syscall(SYS_renameat, AT_FDCWD, tmp, AT_FDCWD, path);
    trace("S %d %s parked\n", n, kind);
    snprintf(path, sizeof path, "%s/%s.%d.go", sched_dir, sched_id, n);
    struct timespec t0, t1;
    syscall(SYS_clock_gettime, CLOCK_MONOTONIC, &t0);
    for (long spins = 0;; spins++) {
        if (syscall(SYS_access, path, F_OK) == 0) break;
        struct timespec nap = { 0, 100000 };
        syscall(SYS_nanosleep, &nap, NULL);
        if ((spins & 1023) == 1023) {
            syscall(SYS_clock_gettime, CLOCK_MONOTONIC, &t1);
            if (t1.tv_sec - t0.tv_sec > 40) break; /* the harness is gone: do not hang for ever */
        }
    }
}

static int flags_write(int flags) { return (flags & O_ACCMODE) != O_RDONLY || (flags & (O_CREAT | O_TRUNC | O_APPEND)); }

int open(const char *path, int flags, ...) {
    init();
    mode_t mode = 0;
    if (flags & (O_CREAT | O_TMPFILE)) { va_list ap; va_start(ap, flags); mode = va_arg(ap, mode_t); va_end(ap); }
    if (flags_write(flags)) sched_point("openw");
    return (int)syscall(SYS_openat, AT_FDCWD, path, flags, mode);
}
int open64(const char *path, int flags, ...) {
    init();
    mode_t mode = 0;
    if (flags & (O_CREAT | O_TMPFILE)) { va_list ap; va_start(ap, flags); mode = va_arg(ap, mode_t); va_end(ap); }
    if (flags_write(flags)) sched_point("openw");
    return (int)syscall(SYS_openat, AT_FDCWD, path, flags | O_LARGEFILE, mode);
}
int openat(int dirfd, const char *path, int flags, ...) {
    init();
    mode_t mode = 0;
    if (flags & (O_CREAT | O_TMPFILE)) { va_list ap; va_start(ap, flags); mode = va_arg(ap, mode_t); va_end(ap); }
    if (flags_write(flags)) sched_point("openw");
    return (int)syscall(SYS_openat, dirfd, path, flags, mode);
}
int openat64(int dirfd, const char *path, int flags, ...) {
    init();
    mode_t mode = 0;
    if (flags & (O_CREAT | O_TMPFILE)) { va_list ap; va_start(ap, flags); mode = va_arg(ap, mode_t); va_end(ap); }
    if (flags_write(flags)) sched_point("openw");
    return (int)syscall(SYS_openat, dirfd, path, flags | O_LARGEFILE, mode);
}
int mkdir(const char *path, mode_t mode) { init(); sched_point("mkdir"); return (int)syscall(SYS_mkdirat, AT_FDCWD, path, mode); }
int rename(const char *a, const char *b) { init(); sched_point("rename"); return (int)syscall(SYS_renameat, AT_FDCWD, a, AT_FDCWD, b); }
int unlink(const char *path) { init(); sched_point("unlink"); return (int)syscall(SYS_unlinkat, AT_FDCWD, path, 0); }
int flock(int fd, int op) { init(); sched_point("flock"); return (int)syscall(SYS_flock, fd, op); }

ssize_t write(int fd, const void *buf, size_t len) {
    init();
    if (inert) return syscall(SYS_write, fd, buf, len);
    if ((fd == 2 && !plan_has_e) || fd == trace_fd || fd < 1) return syscall(SYS_write, fd, buf, len);
    int c = fd == 1 ? 0 : fd == 2 ? 4 : 1;
    long n = counter[c]++;
    if (c == 1) sched_point("writef");
    if (over_budget()) { errno = EIO; return -1; }
    if (len == 0) { trace("W %c %ld 0 -> 0\n", CLS[c], n); return syscall(SYS_write, fd, buf, len); }
    long d = decide(c, n, len);
    if (d == -100000) {
        if (kill_after > 0) { long r0 = syscall(SYS_write, fd, buf, (size_t)kill_after); (void)r0; }
        trace("W %c %ld %zu -> KILLED after %ld\n", CLS[c], n, len, kill_after);
        syscall(SYS_kill, syscall(SYS_getpid), 9);
        for (;;) pause();
    }
    if (d < 0) { trace("W %c %ld %zu -> E%ld\n", CLS[c], n, len, -d); errno = (int)-d; return -1; }
    long r = syscall(SYS_write, fd, buf, (size_t)d);
    trace("W %c %ld %zu -> %ld%s\n", CLS[c], n, len, r, (size_t)d < len ? " short" : "");
    return r;
}

ssize_t read(int fd, void *buf, size_t len) {
    init();
    if (inert) return syscall(SYS_read, fd, buf, len);
    if (fd == 1 || fd == 2 || fd == trace_fd || fd < 0) return syscall(SYS_read, fd, buf, len);
    int c = fd == 0 ? 2 : 3;
    long n = counter[c]++;
    if (over_budget()) { errno = EIO; return -1; }
    if (len == 0) { trace("R %c %ld 0 -> 0\n", CLS[c], n); return syscall(SYS_read, fd, buf, len); }
    long d = decide(c, n, len);
    if (d == -100000) { trace("R %c %ld %zu -> KILLED\n", CLS[c], n, len); syscall(SYS_kill, syscall(SYS_getpid), 9); for (;;) pause(); }
    if (d < 0) { trace("R %c %ld %zu -> E%ld\n", CLS[c], n, len, -d); errno = (int)-d; return -1; }
    long r = syscall(SYS_read, fd, buf, (size_t)d);
    trace("R %c %ld %zu -> %ld%s\n", CLS[c], n, len, r, (size_t)d < len ? " cut" : "");
    return r;
}

ssize_t writev(int fd, const struct iovec *iov, int iovcnt) {
    init();
    if (inert) return syscall(SYS_writev, fd, iov, iovcnt);
    /* fold onto write(): only the first non-empty buffer is offered, which the contract allows */
    for (int i = 0; i < iovcnt; i++)
        if (iov[i].iov_len > 0) return write(fd, iov[i].iov_base, iov[i].iov_len);
    return 0;
}

ssize_t readv(int fd, const struct iovec *iov, int iovcnt) {
    init();
    if (inert) return syscall(SYS_readv, fd, iov, iovcnt);
    for (int i = 0; i < iovcnt; i++)
        if (iov[i].iov_len > 0) return read(fd, iov[i].iov_base, iov[i].iov_len);
    return 0;
}

ssize_t getrandom(void *buf, size_t len, unsigned int flags) {
    init();
    if (inert) return syscall(SYS_getrandom, buf, len, flags);
    (void)flags;
    unsigned char *p = buf;
    for (size_t i = 0; i < len; i += 8) {
        uint64_t v = splitmix();
        size_t k = len - i < 8 ? len - i : 8;
        memcpy(p + i, &v, k);
    }
    trace("G %zu\n", len);
    return (ssize_t)len;
}

int getentropy(void *buf, size_t len) {
    if (len > 256) { errno = EIO; return -1; }
    init();
    if (inert) return syscall(SYS_getrandom, buf, len, 0) == (long)len ? 0 : -1;
    getrandom(buf, len, 0);
    return 0;
}

static int64_t scripted_now(void) {
    long k = clock_reads++;
    int64_t t = clock_base + (int64_t)k * clock_step;
    for (int j = 0; j < jump_len; j++)
        if (jumps[j].n <= k) t += jumps[j].delta;
    if (t < 1000000000ll) t = 1000000000ll; /* never before the epoch (+1 s) */
    trace("C %ld -> %lld\n", k, (long long)t);
    return t;
}

int clock_gettime(clockid_t id, struct timespec *ts) {
    init();
    if (!inert && have_clock && id == CLOCK_REALTIME) {
        int64_t t = scripted_now();
        ts->tv_sec = t / 1000000000ll + clock_extra_s;
        ts->tv_nsec = t % 1000000000ll;
        return 0;
    }
    return (int)syscall(SYS_clock_gettime, id, ts);
}

int gettimeofday(struct timeval *tv, void *tz) {
    init();
    (void)tz;
    if (!inert && have_clock) {
        int64_t t = scripted_now();
        if (tv) { tv->tv_sec = t / 1000000000ll + clock_extra_s; tv->tv_usec = (t % 1000000000ll) / 1000; }
        return 0;
    }
    return (int)syscall(SYS_gettimeofday, tv, tz);
}

time_t time(time_t *out) {
    init();
    if (!inert && have_clock) {
        time_t t = (time_t)(scripted_now() / 1000000000ll + clock_extra_s);
        if (out) *out = t;
        return t;
    }
    struct timespec ts;
    syscall(SYS_clock_gettime, CLOCK_REALTIME, &ts);
    if (out) *out = ts.tv_sec;
    return ts.tv_sec;
}
